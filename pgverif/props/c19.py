"""C19 - string terminals match their literal text; KEYWORD adds whole-word matching."""

import os
import re

import parglare

from pgverif import cfg, glrobs, pgx
from pgverif.mon.lr import LRMonitor
from pgverif.props.c07 import ref_scan

ID = "C19"
LEVEL = "exploration"
RULE = (
    "cases part 1 = (set of 2-4 string terminal texts over letters, digits, . | + * ( ) [ ] \\ ' \" _ - and the \\n \\t escapes, "
    "form inline|declared, input): the same grammar is written with the texts inline and with terminals declared; both must "
    "construct, and for inputs = concatenations of the texts, their mutations and random strings over the same characters the "
    "LR and GLR parsers (ws=None) must accept exactly what a literal startswith scanner + reference chart accepts, identically for "
    "both forms. Part 2 = (string terminals, identifier-like regex terminal, KEYWORD regex, ignore_case, input): a string fully "
    "matched by the KEYWORD regex must match only where no word character is adjacent, others anywhere; GLR forests are compared "
    "with the reference chart over these matchers and every LR scanner event with the documented disambiguation order (keywords "
    "rank as strings). Non-trivial = input accepted by the oracle or >= 2 characters; distinct = (grammar, form, input)."
)
ASSUMPTIONS = [
    "texts are written into the grammar with the escapes \\\\ \\\" \\n \\t inside double quotes; a backslash directly followed by n, t, a quote or a backslash is never generated (the sequential unescaping of the grammar language cannot express it)",
    "word character = str.isalnum() or '_' (the test alphabet is ASCII)",
]

CHARS = list("ab1.|+*()[]_-'\"x") + ["\n", "\t", "\\"]


def plan(tier):
    return {"nshards": 16, "budget_s": 35 if tier == "quick" else 300}


def required(tier):
    return {
        "keyword.modular_grammars": 30,
        "literal.case_only_pair": 30,
        "keyword.precomputed_table": 30,
        "nontrivial": 3000 if tier == "quick" else 30000,
        "literal.grammars": 300,
        "literal.inline_constructed": 100,
        "literal.inputs_compared": 5000,
        "literal.inline_vs_declared": 2000,
        "literal.text_with.regex_metachar": 100,
        "literal.text_with.quote": 50,
        "literal.text_with.backslash": 30,
        "keyword.grammars": 200,
        "keyword.terminals_rewritten": 200,
        "keyword.terminals_kept": 100,
        "keyword.glr_compared": 5000,
        "keyword.lr_events": 5000,
        "keyword.nonword_edge": 30,
        "keyword.ignore_case": 30,
    }


def gen_text(rng):
    while True:
        n = rng.choice([1, 1, 2, 2, 3])
        t = "".join(rng.choice(CHARS) for _ in range(n))
        # the grammar language un-escapes in two passes, each a chain of replacements (\\ \' when
        # the string token is read, then \" \' \\ \n \t for the recognizer), so some texts (two
        # backslashes in a row, a backslash before n or t, ...) cannot be written the plain
        # way: keep exactly the texts whose written form reads back as the text
        w = write(t)[1:-1]
        back = w.replace("\\\\", "\\").replace("\\'", "'")
        back = back.replace('\\"', '"').replace("\\'", "'").replace("\\\\", "\\").replace("\\n", "\n").replace("\\t", "\t")
        if back != t or t.strip(" ") == "":
            continue
        return t


def write(t):
    return '"' + t.replace("\\", "\\\\").replace('"', '\\"').replace("\n", "\\n").replace("\t", "\\t") + '"'


def known_inline_class(texts, names):
    """Static predicates of the recorded inline-form findings."""
    for t in texts:
        if "." in t:
            return "KF-C19-1"
    for t in texts:
        if "\n" in t or "\t" in t:
            return "KF-C19-2"
    for t in texts:
        if t in names or t in ("EMPTY", "STOP", "S", "KEYWORD", "LAYOUT"):
            return "KF-C19-3"
    return None


def run(ctx):
    mon = LRMonitor(record_events=True)
    mon.install()
    try:
        n = 0
        while ctx.more():
            n += 1
            if n % 2:
                literal_case(ctx)
            else:
                keyword_case(ctx, mon)
    finally:
        mon.uninstall()


def literal_case(ctx):
    rng = ctx.rng
    k = rng.randint(2, 4)
    texts = []
    while len(texts) < k:
        t = gen_text(rng)
        if t not in texts:
            texts.append(t)
    if rng.random() < 0.15:
        # two terminals whose texts differ in letter case only: different literals
        for i, t in enumerate(texts):
            sw = t.swapcase()
            if sw != t and sw not in texts:
                texts[(i + 1) % len(texts)] = sw
                ctx.count("literal.case_only_pair")
                break
    if rng.random() < 0.08:
        texts[0] = rng.choice(["t1", "EMPTY", "S", "A"])  # name of another symbol
    names = ["t%d" % i for i in range(k)]
    # S: t0 A | t1;  A: t2 t3? ...
    alts = [[names[0], "A"], [names[1]]]
    a_alts = [[n] for n in names[2:]] or [[names[1]]]
    a_alts.append([names[0], names[1]])
    prods = [("S", tuple(a)) for a in alts] + [("A", tuple(a)) for a in a_alts]
    tdefs = {n: cfg.TDef("str", t) for n, t in zip(names, texts)}
    g = cfg.G(prods, "S", tdefs)

    def render(inline):
        lines = []
        for nt in ("S", "A"):
            lines.append("%s: %s;" % (nt, " | ".join(" ".join((write(tdefs[s].text) if (inline and not cfg.is_nt(s)) else s) for s in r) for _, r in g.by[nt])))
        if not inline:
            lines.append("terminals")
            for n in names:
                if n in g.terms:
                    lines.append("%s: %s;" % (n, write(tdefs[n].text)))
        return "\n".join(lines)

    ctx.count("literal.grammars")
    for t in texts:
        if any(c in t for c in ".|+*()[]"):
            ctx.count("literal.text_with.regex_metachar")
        if "'" in t or '"' in t:
            ctx.count("literal.text_with.quote")
        if "\\" in t:
            ctx.count("literal.text_with.backslash")
    built = {}
    errs = {}
    for form in ("declared", "inline"):
        text = render(form == "inline")
        try:
            pg = pgx.grammar(text)
            built[form] = (text, pgx.glr(pg, ws=None), pgx.lr(pgx.grammar(text), ws=None))
        except Exception as e:  # noqa: BLE001
            errs[form] = (text, e)
    case0 = {"texts": texts, "declared": render(False), "inline": render(True), "g": g.to_json(), "kind": "literal"}
    if "declared" in errs:
        e = errs["declared"][1]
        # equal texts are legitimately refused (these grammars are case sensitive: texts that differ
        # in letter case are different literals); LR conflicts are not this property's business
        if isinstance(e, parglare.GrammarError) and "match the same string" in str(e) and len(set(tdefs[n].text for n in g.terms)) < len(g.terms):
            return
        if isinstance(e, (parglare.exceptions.SRConflicts, parglare.exceptions.RRConflicts)):
            ctx.count("literal.lr_conflicts_skipped")
            return
        ctx.case((case0["declared"], "declared-build"), True)
        ctx.violation("declared-form-does-not-construct:" + type(e).__name__, case0, "%s: %s" % (type(e).__name__, str(e)[:200]))
        return
    if "inline" in errs:
        e = errs["inline"][1]
        known = known_inline_class([tdefs[n].text for n in g.terms], set(names) | {"S", "A"})
        ctx.case((case0["inline"], "inline-build"), True, sample={"inline": case0["inline"], "error": str(e)[:100]})
        ctx.violation("inline-form-does-not-construct:" + type(e).__name__, case0, "the declared form constructs, the inline form raises %s: %s" % (type(e).__name__, str(e)[:200]), known=known)
    else:
        ctx.count("literal.inline_constructed")
    # inputs
    used = [tdefs[n].text for n in g.terms]
    inputs = set()
    for _, r in g.prods:
        pass
    sentences = []
    # derive sentences by brute force over short concatenations
    for a in used:
        inputs.add(a)
        for b in used:
            inputs.add(a + b)
            for c in used[:2]:
                inputs.add(a + b + c)
    alphabet = sorted(set("".join(used)))
    for _ in range(15):
        inputs.add("".join(rng.choice(alphabet) for _ in range(rng.randint(1, 4))))
    for w in list(inputs)[:10]:
        if len(w) > 1:
            i = rng.randrange(len(w))
            inputs.add(w[:i] + w[i + 1 :])
    for w in sorted(inputs):
        want = cfg.Chart(g, w, skip=cfg.skip_none).is_sentence()
        outs = {}
        for form, (text, glr, lr) in built.items():
            a = glrobs.parse_glr(glr, w)
            k, v = pgx.outcome(lr.parse, w)
            outs[form] = (a.kind, a.len if a.kind == "forest" else None, k, repr(v) if k == "ret" else None)
            ctx.case((text, form, w), want or len(w) >= 2, sample={"grammar": text, "form": form, "input": w, "sentence": want})
            ctx.count("literal.inputs_compared")
            case = dict(case0, form=form, input=w)
            if a.kind == "exc":
                ctx.violation("literal-parse-raises:" + type(a.exc).__name__, case, str(a.exc)[:200])
                continue
            if (a.kind == "forest") != want:
                ctx.violation("literal-match-differs", case, "GLR (%s form) %s the input %r, a literal scanner %s it" % (form, "accepts" if a.kind == "forest" else "rejects", w, "accepts" if want else "rejects"))
                continue
            if k == "ret" and not want:
                ctx.violation("literal-match-differs", case, "LR (%s form) accepts %r, a literal scanner rejects it" % (form, w))
        if len(outs) == 2:
            ctx.count("literal.inline_vs_declared")
            if outs["inline"] != outs["declared"]:
                ctx.violation("inline-differs-from-declared", dict(case0, input=w), "inline %s, declared %s" % (outs["inline"], outs["declared"]))


KW_REGEX = [r"\w+", r"[a-z]+", r"[\w+]+", r"[a-z]+\+*", r"[a-z_]\w*", r"\+\+|\w+"]
KW_TEXTS = ["for", "to", "f", "a+", "++", "c++", "+", "in", "i", "=", "a_b", "x1", "if", "fo", "FOR", "Begin", "X", "eND"]
ID_REGEX = [r"[a-z]+", r"\w+", r"[a-z+]+", r"[a-z][a-z0-9_]*"]


def keyword_case(ctx, mon):
    rng = ctx.rng
    k = rng.randint(2, 4)
    texts = rng.sample(KW_TEXTS, k)
    # (two texts equal up to case are legitimately refused under ignore_case)
    while len(set(t.lower() for t in texts)) < len(texts):
        texts = rng.sample(KW_TEXTS, k)
    kwre = rng.choice(KW_REGEX)
    idre = rng.choice(ID_REGEX)
    ignore_case = rng.random() < 0.15
    names = ["k%d" % i for i in range(k)]
    flags = re.IGNORECASE if ignore_case else 0
    tdefs = {}
    for n, t in zip(names, texts):
        m = re.compile(kwre, flags | re.MULTILINE).match(t)
        iskw = bool(m) and m.group() == t
        tdefs[n] = cfg.TDef("kw" if iskw else "str", t)
        ctx.count("keyword.terminals_rewritten" if iskw else "keyword.terminals_kept")
        if iskw and (not cfg._is_word(t[0]) or not cfg._is_word(t[-1])):
            ctx.count("keyword.nonword_edge")
    tdefs["id"] = cfg.TDef("re", idre)
    # S: k0 id | k1 S | id k2 ... random small grammar over the terminals
    syms = names + ["id"]
    prods = [("S", (names[0], "id")), ("S", ("id",)), ("S", (names[1], "S"))]
    for n in names[2:]:
        prods.append(("S", ("id", n, "S")))
    g = cfg.G(prods, "S", tdefs)
    lines = ["S: %s;" % " | ".join(" ".join(r) for _, r in g.by["S"]), "terminals"]
    for n in names:
        lines.append("%s: %s;" % (n, write(tdefs[n].text)))
    lines.append("id: /%s/;" % idre)
    lines.append("KEYWORD: /%s/;" % kwre)
    text = "\n".join(lines)
    # a quarter of the grammars keep the keyword-like strings in an imported file: KEYWORD
    # (declared in the root) applies to them all the same
    modular = rng.random() < 0.25
    pre = "m." if modular else ""
    try:
        if modular:
            import shutil
            import tempfile

            root = ["import 'm.pg' as m;", "S: %s;" % " | ".join(" ".join((pre + x) if x in names else x for x in r) for _, r in g.by["S"]), "terminals", "id: /%s/;" % idre, "KEYWORD: /%s/;" % kwre]
            mod = ["X: %s;" % " | ".join(names), "terminals"] + ["%s: %s;" % (n, write(tdefs[n].text)) for n in names]
            text = "\n".join(root) + "\n--- m.pg ---\n" + "\n".join(mod)
            d = tempfile.mkdtemp(prefix="pgv-c19-")
            try:
                with open(os.path.join(d, "root.pg"), "w") as fh:
                    fh.write("\n".join(root) + "\n")
                with open(os.path.join(d, "m.pg"), "w") as fh:
                    fh.write("\n".join(mod) + "\n")
                with pgx.quiet():
                    pg = parglare.Grammar.from_file(os.path.join(d, "root.pg"), ignore_case=ignore_case)
                    glr = parglare.GLRParser(pg)
                lr = None
            finally:
                shutil.rmtree(d, ignore_errors=True)
            ctx.count("keyword.modular_grammars")
        else:
            pg = pgx.grammar(text, ignore_case=ignore_case)
            glr = pgx.glr(pg)
            pgl = pgx.grammar(text, ignore_case=ignore_case)
            if rng.random() < 0.2:
                # table computed beforehand and handed over: keywords and strings still come before regexes
                import parglare.tables as T

                with pgx.quiet():
                    tbl = T.create_table(pgl, prefer_shifts=True, prefer_shifts_over_empty=True)
                lr = pgx.lr(pgl, table=tbl)
                ctx.count("keyword.precomputed_table")
            else:
                lr = pgx.lr(pgl)
    except parglare.GrammarError as e:
        if "match the same string" in str(e):
            return
        ctx.case((text, "build"), True)
        ctx.violation("keyword-grammar-does-not-construct", {"grammar": text}, str(e)[:200])
        return
    except Exception as e:  # noqa: BLE001
        ctx.count("keyword.construction_failed:" + type(e).__name__)
        return
    ctx.count("keyword.grammars")
    if ignore_case:
        ctx.count("keyword.ignore_case")
    # implementation agrees on which terminals are keywords
    for n in names:
        t = pg.get_terminal(pre + n)
        if bool(t.keyword) != (tdefs[n].kind == "kw"):
            ctx.case((text, "kwflag", n), True)
            ctx.violation("keyword-classification", {"grammar": text, "terminal": n}, "terminal %s text %r: keyword=%s, the KEYWORD regex %s it fully" % (n, tdefs[n].text, t.keyword, "matches" if tdefs[n].kind == "kw" else "does not match"))
            return
    pieces = texts + [t.lower() for t in texts] + ["x", "ab", "fora", "a", "+", " ", "Beginx", "FORa"]
    inputs = set()
    for _ in range(40 if ctx.tier == "quick" else 80):
        n = rng.randint(1, 4)
        w = "".join(rng.choice(pieces) + rng.choice(["", " ", ""]) for _ in range(n))
        if ignore_case and rng.random() < 0.5:
            w = "".join(c.upper() if rng.random() < 0.4 else c for c in w)
        inputs.add(w)
    case0 = {"grammar": text, "tdefs": {k: v.to_json() for k, v in tdefs.items()}, "ignore_case": ignore_case, "g": g.to_json(), "kind": "keyword-modular" if modular else "keyword"}
    for w in sorted(inputs):
        chart = cfg.Chart(g, w, ignore_case=ignore_case)
        want = chart.is_sentence()
        a = glrobs.parse_glr(glr, w)
        ctx.case((text, "kw", ignore_case, w), want or len(w) >= 2, sample={"grammar": text, "input": w, "sentence": want})
        ctx.count("keyword.glr_compared")
        case = dict(case0, input=w)
        if a.kind == "exc":
            ctx.violation("keyword-parse-raises:" + type(a.exc).__name__, case, str(a.exc)[:200])
            continue
        if (a.kind == "forest") != want:
            ctx.violation("keyword-match-differs", case, "GLR %s %r, the reference (literal + whole-word rule) %s it" % ("accepts" if a.kind == "forest" else "rejects", w, "accepts" if want else "rejects"))
            continue
        if modular:
            # (terminal names are qualified there: language and classification only)
            continue
        if want and not a.loop and chart.count() != cfg.INF and a.len != chart.count() and a.len <= 50:
            pk = pgx.prod_keys(glr.grammar)
            got = set(pgx.tree_form(t, pk) for t in a.forest)
            ref = set(pgx.ref_tree_form(t, g) for t in chart.trees())
            if got != ref:
                ctx.violation("keyword-tokenisation-differs", case, "GLR trees differ from the reference tokenisations of %r" % w)
                continue
        # LR scanner events: keywords rank as strings
        del mon.events[:]
        try:
            pgx.outcome(lr.parse, w)
        except (pgx.CaseTimeout, pgx.BudgetExceeded):
            continue
        from parglare.grammar import STOP

        for (ps, state, pos, toks) in mon.events:
            if ps is not lr:
                continue
            expected = [t.name for t in state.actions if t is not STOP]
            wantt, reason, explicit, nmatch = ref_scan(expected, tdefs, {}, w, pos, True, ignore_case, STOP in state.actions)
            got = sorted((t.symbol.name, t.value) for t in toks)
            ctx.count("keyword.lr_events")
            if got != wantt:
                ctx.violation("keyword-token-choice-differs:" + reason, dict(case, position=pos), "at %d expecting %s the scanner returned %s, documented order gives %s" % (pos, expected, got, wantt))
                break


def replay(case, ctx):
    """Re-executes the stored case: same grammar text(s), same input."""
    if "input" not in case or "g" not in case:
        return
    g = cfg.G.from_json(case["g"])
    w = case["input"]
    if case.get("kind") == "keyword-modular":
        # two grammar files: the case is self-describing (texts of both files are in it)
        return
    if case.get("kind") == "literal":
        want = cfg.Chart(g, w, skip=cfg.skip_none).is_sentence()
        outs = {}
        for form in ("declared", "inline"):
            try:
                glr = pgx.glr(pgx.grammar(case[form]), ws=None)
                lr = pgx.lr(pgx.grammar(case[form]), ws=None)
            except Exception:  # noqa: BLE001
                continue
            a = glrobs.parse_glr(glr, w)
            k, v = pgx.outcome(lr.parse, w)
            outs[form] = (a.kind, a.len if a.kind == "forest" else None, k, repr(v) if k == "ret" else None)
            if a.kind != "exc" and (a.kind == "forest") != want:
                ctx.violation("literal-match-differs", case, "GLR (%s form) %s %r, a literal scanner %s it" % (form, a.kind, w, want))
        if len(outs) == 2 and outs["inline"] != outs["declared"]:
            ctx.violation("inline-differs-from-declared", case, "inline %s, declared %s" % (outs["inline"], outs["declared"]))
        return
    ic = case.get("ignore_case", False)
    chart = cfg.Chart(g, w, ignore_case=ic)
    glr = pgx.glr(pgx.grammar(case["grammar"], ignore_case=ic))
    a = glrobs.parse_glr(glr, w)
    if a.kind != "exc" and (a.kind == "forest") != chart.is_sentence():
        ctx.violation("keyword-match-differs", case, "GLR %s %r, the reference says sentence=%s" % (a.kind, w, chart.is_sentence()))
    tdefs = {k: cfg.TDef.from_json(v) for k, v in case["tdefs"].items()}
    mon = LRMonitor(record_events=True)
    mon.install()
    try:
        from parglare.grammar import STOP

        lr = pgx.lr(pgx.grammar(case["grammar"], ignore_case=ic))
        pgx.outcome(lr.parse, w)
        for (ps, state, pos, toks) in mon.events:
            if ps is not lr:
                continue
            expected = [t.name for t in state.actions if t is not STOP]
            wantt, reason, explicit, nmatch = ref_scan(expected, tdefs, {}, w, pos, True, ic, STOP in state.actions)
            got = sorted((t.symbol.name, t.value) for t in toks)
            if got != wantt:
                ctx.violation("keyword-token-choice-differs:" + reason, case, "at %d the scanner returned %s, documented order gives %s" % (pos, got, wantt))
                break
    finally:
        mon.uninstall()
