"""C14 - layout is invisible: changing layout between tokens never changes the parse."""

import parglare

from pgverif import cfg, glrobs, pgx
from pgverif.mon.cover import Cover
from pgverif.mon.lr import LRMonitor
from pgverif.props import glrwork
from pgverif.props.c08 import COMMENT_FILLERS, COMMENT_LAYOUT, COMMENT_TERMS, WS_LAYOUT, WS_TERMS

ID = "C14"
LEVEL = "exploration"
RULE = (
    "cases = (grammar with single-character terminals, parser LR|GLR, layout kind ws|ws-equivalent LAYOUT rule|comment LAYOUT rule, "
    "input): corpus + random grammars x all strings up to the bound (sentences and non-sentences); metamorphic oracle: two "
    "independently drawn layouts of the same token string (fillers from ws characters, // line comments and nested /* */ comments, "
    "before the first token, between tokens, after the last) must give the same acceptance, the same result (tree shapes without "
    "positions, action results) and corresponding error positions; and the ws parameter vs a LAYOUT rule matching exactly runs of "
    "ws characters must give identical forests / trees including node positions, layout_content and error positions. The augmented "
    "production of the shared grammar object must be the main start after building the layout sub-parser. Non-trivial = input with "
    ">= 1 token and at least one non-empty filler; distinct = (grammar, parser, layout kind, token string, layout)."
)
ASSUMPTIONS = ["token boundaries of the generated vocabularies do not depend on layout (single-character string terminals)"]


def plan(tier):
    return {"nshards": 16, "budget_s": 40 if tier == "quick" else 400}


def required(tier):
    return {
        "nontrivial": 3000 if tier == "quick" else 30000,
        "relayout.glr.accepted": 1500,
        "relayout.glr.rejected": 1500,
        "relayout.lr.accepted": 500,
        "relayout.lr.rejected": 1000,
        "relayout.glr_table.accepted": 500,
        "ws_vs_rule.glr": 2000,
        "ws_vs_rule.lr": 500,
        "ws_vs_rule.positions_compared": 2000,
        "layout.comments": 500,
        "layout.rule": 500,
        "layout.rule_chars": 300,
        "layout.terminals_with_priority": 30,
        "config.custom_ws_with_regex_metacharacters": 30,
        "layout.ws": 1000,
        "layout.custom_ws": 300,
        "augmented_production_checked": 100,
        "cover.layout_parser_init": 5,
        "grammars.slr_tables": 20,
    }


def shape(n):
    if n.is_term():
        return ("t", n.symbol.name, n.value)
    return (n.production.symbol.name, tuple(s.name for s in list.__iter__(n.production.rhs)), tuple(shape(c) for c in n.children))


def full(n):
    if n.is_term():
        return ("t", n.symbol.name, n.value, n.start_position, n.end_position, n.layout_content)
    return (n.production.symbol.name, n.start_position, n.end_position, tuple(full(c) for c in n.children))


def layout_strings(w, rng, fillers):
    """Returns (text, positions of the characters of w in text)."""
    out = []
    pos = []
    n = 0
    for ch in w:
        f = rng.choice(fillers)
        out.append(f)
        n += len(f)
        pos.append(n)
        out.append(ch)
        n += 1
    f = rng.choice(fillers)
    out.append(f)
    return "".join(out), pos, n, n + len(f)


def run(ctx):
    import parglare.parser as PP

    cover = Cover({"layout_parser_init": PP.Parser.__init__, "_skipws": PP.Parser._skipws})
    cover.install()
    from pgverif.mon.contracts import Contracts

    mon = LRMonitor()
    mon.install()
    con = Contracts(("skipws",))
    con.install()
    maxlen = 4 if ctx.tier == "quick" else 5
    try:
        for name, g, alphabet in glrwork.grammar_stream(ctx, overlap_share=0.0):
            if not ctx.more():
                break
            one_grammar(ctx, g, alphabet, maxlen)
    finally:
        mon.uninstall()
        cover.uninstall()
        con.uninstall()
    cover.report(ctx)
    con.report(ctx)


CHAR_LAYOUT = "LAYOUT: LayoutItem | LAYOUT LayoutItem | EMPTY;\nLayoutItem: Blanks;\nBlanks: Blank | Blanks Blank;\n"
CHAR_TERMS = "Blank: /[ \\t\\r\\n]/;"
CUSTOM_WS = "_~ "
CUSTOM_FILLERS = ["", "_", "~", " ", "_~", "~ _", "  "]


def parsers_for(text, kind, slr=False):
    kw = {"ws": CUSTOM_WS} if kind == "custom_ws" else {}
    if slr:
        kw["tables"] = pgx.SLR
    pg = pgx.grammar(text)
    glr = pgx.glr(pg, **kw)
    lr = None
    try:
        lr = pgx.lr(pgx.grammar(text), build_tree=True, **kw)
    except Exception:  # noqa: BLE001
        pass
    # a parser given a precomputed table must treat layout exactly like one that computes it
    try:
        glr.with_table = pgx.glr(pg, table=glr.table, **kw)
    except Exception:  # noqa: BLE001
        glr.with_table = None
    return pg, glr, lr


CUSTOM_WS_POOL = ["_~ ", "_~ ", ", -;", " \t\\\n", "]^ ", ".*_"]


def set_custom_ws(ws):
    """Layout characters of the custom_ws configuration (they are literal characters, whatever
    they would mean in a regular expression)."""
    global CUSTOM_WS, CUSTOM_FILLERS
    CUSTOM_WS = ws
    CUSTOM_FILLERS = [""] + list(ws) + [ws[:2], ws[1:] + ws[:1], ws[-1] * 2]


def one_grammar(ctx, g, alphabet, maxlen):
    rng = ctx.rng
    set_custom_ws(rng.choice([w for w in CUSTOM_WS_POOL if not set(w) & set(alphabet)]))
    if CUSTOM_WS != "_~ ":
        ctx.count("config.custom_ws_with_regex_metacharacters")
    if len(alphabet) >= 3 and maxlen > 3:
        maxlen = 3
    # layout terminals may carry a priority of their own (below or above the default): it only
    # ranks real tokens among themselves
    lp = rng.choice([None, None, 1, 5, 9, 15])
    if lp is not None:
        ctx.count("layout.terminals_with_priority")

    def prio(terms):
        return terms if lp is None else terms.replace(";", " {%d};" % lp)

    texts = {
        "ws": g.text(),
        "rule": g.text(extra_rules=WS_LAYOUT.strip(), extra_terms=prio(WS_TERMS)),
        "comments": g.text(extra_rules=COMMENT_LAYOUT.strip(), extra_terms=prio(COMMENT_TERMS) if rng.random() < 0.5 else COMMENT_TERMS),
        # the same whitespace layout spelled character by character (the layout grammar then
        # relies on the layout sub-parser's own conflict resolution)
        "rule_chars": g.text(extra_rules=CHAR_LAYOUT.strip(), extra_terms=prio(CHAR_TERMS)),
        "custom_ws": g.text(),
    }
    built = {}
    # the table kind must not matter for layout handling (main and LAYOUT tables come from one Grammar object)
    slr = rng.random() < 0.3
    if slr:
        ctx.count("grammars.slr_tables")
    try:
        with pgx.watchdog(60):
            for k, t in texts.items():
                try:
                    built[k] = parsers_for(t, k, slr)
                except pgx.CaseTimeout:
                    raise
                except Exception as e:  # noqa: BLE001
                    if k == "ws" or "ws" not in built:
                        ctx.count("construction_failed:" + type(e).__name__)
                        return
                    # the same grammar builds with the ws parameter: a layout given as a rule must build too
                    ctx.case((t, "build"), True)
                    ctx.violation("layout-rule-parser-does-not-construct:" + type(e).__name__, {"g": g.to_json(), "texts": texts, "kind": k, "slr": slr}, "GLRParser for the grammar with the %s layout raises %s: %s (it constructs with the ws parameter)" % (k, type(e).__name__, str(e)[:200]))
                    return
    except pgx.CaseTimeout:
        ctx.inconc("construction timeout")
        return
    # M-state: the augmented production of the grammar object shared with the layout sub-parser
    for k in ("rule", "comments", "rule_chars"):
        pg = built[k][0]
        ctx.count("augmented_production_checked")
        rhs = [s.name for s in list.__iter__(pg.productions[0].rhs)]
        if rhs != [g.start, "STOP"]:
            ctx.violation("augmented-production-not-main-start", {"grammar": texts[k], "g": g.to_json()}, "after building the layout sub-parser productions[0].rhs is %s" % rhs)
            return
    case0 = {"g": g.to_json(), "texts": texts, "slr": slr, "custom_ws": CUSTOM_WS}
    for w in cfg.all_strings(alphabet, maxlen):
        if not ctx.more():
            return
        for kind in ("ws", "rule", "comments", "custom_ws", "rule_chars"):
            if kind != "ws" and rng.random() < 0.5:
                continue
            fillers = COMMENT_FILLERS if kind == "comments" else (CUSTOM_FILLERS if kind == "custom_ws" else glrwork.LAYOUT_FILLERS)
            a = layout_strings(w, rng, fillers)
            b = layout_strings(w, rng, fillers)
            ctx.count("layout." + kind)
            relayout_check(ctx, g, built[kind], dict(case0, kind=kind, w=w, a=a[0], b=b[0]), w, a, b)
        # ws parameter vs ws-equivalent LAYOUT rule on the same text
        t = layout_strings(w, rng, glrwork.LAYOUT_FILLERS)
        ws_vs_rule(ctx, g, built["ws"], built["rule"], dict(case0, kind="ws-vs-rule", w=w, a=t[0]), t[0])
        if rng.random() < 0.4:
            ws_vs_rule(ctx, g, built["ws"], built["rule_chars"], dict(case0, kind="ws-vs-rule", rule_kind="rule_chars", w=w, a=t[0]), t[0])


def observe(parser, is_glr, inp):
    """(kind, payload) with payload position independent for accepted inputs."""
    if is_glr:
        o = glrobs.parse_glr(parser, inp)
        if o.kind == "forest":
            if o.loop:
                return ("forest", "loop", None)
            return ("forest", o.len, o.forest)
        if o.kind == "syntax":
            return ("syntax", o.err.location.start_position, None)
        return ("exc", type(o.exc).__name__ + ": " + str(o.exc)[:100], None)
    k, v = pgx.outcome(parser.parse, inp)
    if k == "ret":
        return ("tree", 1, v)
    if k == "syntax":
        return ("syntax", v.location.start_position, None)
    return ("exc", type(v).__name__ + ": " + str(v)[:100], None)


def relayout_check(ctx, g, built, case, w, a, b):
    pg, glr, lr = built
    (ta, pa, ea, la), (tb, pb, eb, lb) = a, b
    nontrivial = len(w) >= 1 and (len(ta) > len(w) or len(tb) > len(w))
    for name, parser, is_glr in (("GLR", glr, True), ("LR", lr, False), ("GLR-table", getattr(glr, "with_table", None), True)):
        if parser is None:
            continue
        key = (case["texts"][case["kind"]], name, w, ta, tb)
        try:
            with pgx.watchdog(30):
                oa = observe(parser, is_glr, ta)
                ob = observe(parser, is_glr, tb)
        except pgx.CaseTimeout:
            ctx.inconc("timeout")
            continue
        except pgx.BudgetExceeded as e:
            if type(e).__name__ == "ContractBroken":
                ctx.case(key, True)
                ctx.violation("contract-broken", dict(case, parser=name), str(e))
                continue
            ctx.count("diverged_not_judged")
            continue
        ctx.case(key, nontrivial, sample={"grammar": case["texts"][case["kind"]], "parser": name, "a": ta, "b": tb})
        c = dict(case, parser=name)
        if oa[0] == "exc" or ob[0] == "exc":
            if oa[0] != ob[0] or (oa[0] == "exc" and oa[1].split(":")[0] != ob[1].split(":")[0]):
                ctx.violation("relayout-changes-outcome", c, "%s: %r gives %s, %r gives %s" % (name, ta, oa[:2], tb, ob[:2]))
            continue
        if oa[0] != ob[0]:
            ctx.violation("relayout-changes-acceptance", c, "%s: %r gives %s, %r gives %s" % (name, ta, oa[0], tb, ob[0]))
            continue
        if oa[0] == "syntax":
            ctx.count("relayout.%s.rejected" % name.lower().replace("-table", "_table"))
            # corresponding error positions: same token index (or end of input)
            def tok_index(pos, ps, end, ln):
                if pos in ps:
                    return ps.index(pos)
                if pos == ln:
                    return "eof"
                return ("?", pos)

            ia = tok_index(oa[1], pa, ea, la)
            ib = tok_index(ob[1], pb, eb, lb)
            if ia != ib:
                ctx.violation("relayout-changes-error-position", c, "%s: error at %s (token %s) in %r, at %s (token %s) in %r" % (name, oa[1], ia, ta, ob[1], ib, tb))
            continue
        ctx.count("relayout.%s.accepted" % name.lower().replace("-table", "_table"))
        if is_glr:
            if oa[1] != ob[1]:
                ctx.violation("relayout-changes-tree-count", c, "GLR: %s trees for %r, %s trees for %r" % (oa[1], ta, ob[1], tb))
                continue
            if oa[1] != "loop" and oa[1] <= 60:
                sa = sorted(repr(shape(t)) for t in oa[2])
                sb = sorted(repr(shape(t)) for t in ob[2])
                if sa != sb:
                    ctx.violation("relayout-changes-trees", c, "GLR tree shapes differ between %r and %r" % (ta, tb))
        else:
            if shape(oa[2]) != shape(ob[2]):
                ctx.violation("relayout-changes-trees", c, "LR tree shape differs between %r and %r" % (ta, tb))


def ws_vs_rule(ctx, g, bws, brule, case, inp):
    for name, pw, pr, is_glr in (("GLR", bws[1], brule[1], True), ("LR", bws[2], brule[2], False)):
        if pw is None or pr is None:
            continue
        try:
            with pgx.watchdog(30):
                ow = observe(pw, is_glr, inp)
                orr = observe(pr, is_glr, inp)
        except pgx.CaseTimeout:
            ctx.inconc("timeout")
            continue
        except pgx.BudgetExceeded:
            ctx.count("diverged_not_judged")
            continue
        ctx.case((case["texts"]["ws"], name, "ws-vs-rule", inp), len(inp.strip()) >= 1 and len(inp) > len(case["w"]), sample={"grammar": case["texts"]["rule"], "parser": name, "input": inp})
        ctx.count("ws_vs_rule." + name.lower())
        c = dict(case, parser=name)
        if ow[:2] != orr[:2]:
            ctx.violation("ws-vs-layout-rule-differs", c, "%s on %r: ws parameter gives %s, equivalent LAYOUT rule gives %s" % (name, inp, ow[:2], orr[:2]))
            continue
        if ow[0] == "forest" and ow[1] != "loop" and ow[1] <= 40:
            ctx.count("ws_vs_rule.positions_compared")
            fa = sorted(repr(full(t)) for t in ow[2])
            fb = sorted(repr(full(t)) for t in orr[2])
            if fa != fb:
                ctx.violation("ws-vs-layout-rule-positions", c, "GLR on %r: node positions / layout_content differ between ws and the equivalent LAYOUT rule" % inp)
        elif ow[0] == "tree":
            ctx.count("ws_vs_rule.positions_compared")
            if full(ow[2]) != full(orr[2]):
                ctx.violation("ws-vs-layout-rule-positions", c, "LR on %r: %s vs %s" % (inp, str(full(ow[2]))[:200], str(full(orr[2]))[:200]))


def replay(case, ctx):
    g = cfg.G.from_json(case["g"])
    set_custom_ws(case.get("custom_ws", "_~ "))
    mon = LRMonitor()
    mon.install()
    try:
        if case["kind"] == "ws-vs-rule":
            rk = case.get("rule_kind", "rule")
            ws_vs_rule(ctx, g, parsers_for(case["texts"]["ws"], "ws", case.get("slr", False)), parsers_for(case["texts"][rk], rk, case.get("slr", False)), case, case["a"])
        else:
            try:
                built = parsers_for(case["texts"][case["kind"]], case["kind"], case.get("slr", False))
            except Exception as e:  # noqa: BLE001
                ctx.violation("layout-rule-parser-does-not-construct:" + type(e).__name__, case, str(e)[:200])
                return
            if "w" not in case:
                return

            def recon(t, w):
                pos = []
                i = 0
                # positions of the characters of w in t (layout never contains token characters)
                for ch in w:
                    while t[i] != ch or in_comment(t, i):
                        i += 1
                    pos.append(i)
                    i += 1
                return (t, pos, i, len(t))

            relayout_check(ctx, g, built, case, case["w"], recon(case["a"], case["w"]), recon(case["b"], case["w"]))
    finally:
        mon.uninstall()


def in_comment(t, i):
    # fillers used by the generator never contain the token characters a, b, c outside comments
    depth = 0
    j = 0
    line = False
    while j < i:
        if line:
            if t[j] == "\n":
                line = False
            j += 1
        elif t.startswith("/*", j):
            depth += 1
            j += 2
        elif t.startswith("*/", j) and depth:
            depth -= 1
            j += 2
        elif t.startswith("//", j) and not depth:
            line = True
            j += 2
        else:
            j += 1
    return depth > 0 or line
