"""C18 - the dynamic disambiguation filter sees every marked decision and only those."""

import parglare
from parglare import REDUCE, SHIFT

import functools

from pgverif import glrobs, pgx
from pgverif.mon.cover import Cover
from pgverif.props.c06 import OPS, climb, gen_expr, make_table  # noqa: F401

ID = "C18"
LEVEL = "exploration"
RULE = (
    "cases = (operator grammar with a random subset of productions / operator terminals marked dynamic, filter, parser LR|GLR, "
    "expression): the filter given to the parser is the monitor - it logs every call; filters: accept all, reject every reduction "
    "of one production, precedence-encoding filter built from an operator table. Oracle on the recorded call history of every "
    "parse: exactly one all-None call and it is the first; every other call is a SHIFT into a dynamic terminal or a REDUCE of a "
    "dynamic production with len(subresults) == len(rhs); every dynamic reduction / dynamic terminal leaf present in the result "
    "(LR tree, or any packed alternative of the GLR forest) has an accepted call with the same production and child spans / token "
    "position, and no packed alternative corresponds to a call that was only rejected; accept-all == no filter; reject-P == the "
    "trees of the unfiltered forest that do not use P; precedence filter == precedence climbing == static priorities. "
    "Non-trivial = parse with >= 2 filter calls after the initial one; distinct = (grammar, filter, parser, expression)."
)
ASSUMPTIONS = ["what happens when a filter rejects every action of a cell is not stated by the property and is not judged"]


def plan(tier):
    return {"nshards": 16, "budget_s": 35 if tier == "quick" else 300}


def required(tier):
    return {
        "nontrivial": 1500 if tier == "quick" else 15000,
        "calls.total": 20000,
        "calls.shift": 2000,
        "calls.reduce": 5000,
        "calls.rejected": 500,
        "filter.accept_all.glr": 500,
        "filter.accept_all.lr": 300,
        "filter.reject_production.glr": 500,
        "filter.reject_production.lr": 200,
        "filter.reject_shift.glr": 300,
        "filter.precedence.lr": 300,
        "filter.precedence.glr": 300,
        "filter.partial_marks.lr": 300,
        "filter.rr_partial_marks.lr": 100,
        "completeness.reductions_checked": 5000,
        "completeness.shifts_checked": 1000,
        "cover._call_dynamic_filter": 8,
        "grammars.dynamic_empty_production": 50,
        "grammars.with_layout_rule": 50,
    }


def norm(r):
    """Parse result -> operator tree (the optional suffix Q of an atom is dropped)."""
    if isinstance(r, list):
        if len(r) == 2 and r[0] == "n":
            return "n"
        if len(r) == 3:
            return (norm(r[0]), norm(r[1]), norm(r[2]))
        if len(r) == 1:
            return norm(r[0])
    return r


class Filter:
    def __init__(self, decide):
        self.log = []
        self.decide = decide

    def __call__(self, context, from_state, to_state, action, production, subresults):
        if action is None:
            self.log.append(("init", context, from_state, to_state, production, subresults, None))
            return None
        r = self.decide(context, from_state, to_state, action, production, subresults)
        if action is SHIFT:
            tok = context.token if context.token is not None else context.token_ahead
            self.log.append(("shift", to_state, tok, context.position if hasattr(context, "position") else None, r, None, None))
        else:
            spans = None
            try:
                spans = tuple((c.start_position, c.end_position) for c in subresults) if subresults and hasattr(subresults[0], "start_position") else None
            except Exception:  # noqa: BLE001
                spans = None
            self.log.append(("reduce", production, len(subresults) if subresults is not None else None, spans, r, context, list(subresults) if subresults is not None else None))
        return r


LAYOUT_RULES = "LAYOUT: LayoutItem | LAYOUT LayoutItem | EMPTY;\nLayoutItem: WS | Comment;\n"
LAYOUT_TERMS = "\nWS: /\\s+/;\nComment: /\\/\\*.*?\\*\\//;"
LAYOUT_FILL = ["", "", " ", "/*c*/", " /* + n */ ", "\n"]


def strip_layout(x):
    import re

    return re.sub(r"/\*.*?\*/|\s+", "", x)


def grammar_text(rng, table, dynp, dynt, static, dynq=False, skip=None, layout=False):
    alts = []
    for i, o in enumerate(table):
        if i == skip:
            continue
        meta = []
        if static:
            meta += [table[o][1], str(table[o][0])]
        if dynp[o]:
            meta.append("dynamic")
        alts.append("E op%d E%s" % (i, (" {%s}" % ", ".join(meta)) if meta else ""))
    alts += ['"(" E ")"', '"n" Q']
    terms = ['op%d: "%s"%s;' % (i, o, " {dynamic}" if dynt[o] else "") for i, o in enumerate(table) if i != skip]
    # an optional suffix whose empty alternative may be marked dynamic: reductions of empty
    # dynamic productions must reach the filter too, with no sub-results
    q = 'Q: "?" | EMPTY%s;' % (" {dynamic}" if dynq else "")
    if layout:
        # a LAYOUT rule: the nested layout parser must not talk to the user's filter
        return "E: " + " | ".join(alts) + ";\n" + q + "\n" + LAYOUT_RULES + "terminals\n" + "\n".join(terms) + LAYOUT_TERMS
    return "E: " + " | ".join(alts) + ";\n" + q + "\nterminals\n" + "\n".join(terms)


def run(ctx):
    import parglare.parser as PP

    cover = Cover({"_call_dynamic_filter": PP.Parser._call_dynamic_filter, "_dynamic_disambiguation": PP.Parser._dynamic_disambiguation})
    cover.install()
    try:
        while ctx.more():
            one_table(ctx)
    finally:
        cover.uninstall()
    cover.report(ctx)


def one_table(ctx):
    rng = ctx.rng
    table = make_table(rng)
    while len(table) > 4:
        table.pop(next(iter(table)))
    ops = list(table)
    # --- accept-all and reject-one on grammars with arbitrary dynamic marks -------
    dynp = {o: rng.random() < 0.6 for o in ops}
    dynt = {o: rng.random() < 0.5 for o in ops}
    exprs = []
    layout = rng.random() < 0.3
    if layout:
        ctx.count("grammars.with_layout_rule")
    grammar_text = functools.partial(globals()["grammar_text"], layout=layout)
    for _ in range(12 if ctx.tier == "quick" else 25):
        toks = gen_expr(rng, ops, rng.choice([2, 3, 3]))
        if len(toks) <= 11:
            if layout:
                exprs.append("".join(rng.choice(LAYOUT_FILL) + t for t in toks) + rng.choice(LAYOUT_FILL))
            else:
                exprs.append("".join(toks))
    dynq = rng.random() < 0.5
    if dynq:
        ctx.count("grammars.dynamic_empty_production")
    amb = grammar_text(rng, table, dynp, dynt, static=False, dynq=dynq)
    stat = grammar_text(rng, table, dynp, dynt, static=True, dynq=dynq)
    for text, label in ((amb, "ambiguous"), (stat, "static")):
        # GLR accept-all == no filter
        try:
            f = Filter(lambda *a: True)
            pf = pgx.glr(pgx.grammar(text), dynamic_filter=f)
            p0 = pgx.glr(pgx.grammar(text))
        except Exception as e:  # noqa: BLE001
            ctx.count("construction_failed:" + type(e).__name__)
            continue
        for x in exprs:
            case = {"grammar": text, "filter": "accept_all", "parser": "GLR", "expr": x}
            del f.log[:]
            a = glrobs.parse_glr(pf, x)
            b = glrobs.parse_glr(p0, x)
            ctx.count("filter.accept_all.glr")
            if not discipline(ctx, case, f.log, pf.grammar):
                continue
            if a.kind != b.kind or (a.kind == "forest" and sorted(t.to_str() for t in a.forest) != sorted(t.to_str() for t in b.forest)):
                ctx.violation("accept-all-differs-from-no-filter", case, "GLR with an accept-all filter: %s/%s trees, without filter: %s/%s" % (a.kind, a.len, b.kind, b.len))
                continue
            if a.kind == "forest":
                completeness_glr(ctx, case, f.log, a.forest)
        # GLR reject every reduction of one dynamic production
        dyn_ops = [o for o in ops if dynp[o]]
        if dyn_ops and label == "ambiguous":
            victim = "op%d" % ops.index(rng.choice(dyn_ops))
            f2 = Filter(lambda context, fs, ts, action, production, sub: not (action is REDUCE and len(production.rhs) == 3 and production.rhs[1].name == victim))
            pr = pgx.glr(pgx.grammar(text), dynamic_filter=f2)
            for x in exprs:
                case = {"grammar": text, "filter": "reject:" + victim, "parser": "GLR", "expr": x}
                del f2.log[:]
                a = glrobs.parse_glr(pr, x)
                b = glrobs.parse_glr(p0, x)
                ctx.count("filter.reject_production.glr")
                if not discipline(ctx, case, f2.log, pr.grammar):
                    continue
                if b.kind != "forest":
                    continue

                def uses(t):
                    if t.is_term():
                        return False
                    if len(t.production.rhs) == 3 and t.production.rhs[1].name == victim:
                        return True
                    return any(uses(c) for c in t.children)

                want = sorted(t.to_str() for t in b.forest if not uses(t)) if b.len <= 200 else None
                if want is None:
                    continue
                got = sorted(t.to_str() for t in a.forest) if a.kind == "forest" else []
                if a.kind == "exc":
                    ctx.violation("filter-parse-raises:" + type(a.exc).__name__, case, str(a.exc)[:200])
                    continue
                if set(got) != set(want):
                    ctx.violation("rejected-action-taken-or-accepted-action-dropped", case, "rejecting every reduction of %s: %d trees, expected the %d trees of the unfiltered forest that do not use it" % (victim, len(set(got)), len(set(want))))
                    continue
                if a.kind == "forest":
                    completeness_glr(ctx, case, f2.log, a.forest)
        # GLR: reject every SHIFT of one dynamic operator terminal == the grammar without that operator
        dyn_terms = [o for o in ops if dynt[o]]
        if dyn_terms and label == "ambiguous" and len(ops) >= 2:
            vi = ops.index(rng.choice(dyn_terms))
            victim_t = "op%d" % vi
            f6 = Filter(lambda context, fs, ts, action, production, sub: not (action is SHIFT and ts.symbol.name == victim_t))
            ps = pgx.glr(pgx.grammar(text), dynamic_filter=f6)
            pref = pgx.glr(pgx.grammar(grammar_text(rng, table, dynp, dynt, static=False, dynq=dynq, skip=vi)))
            for x in exprs:
                case = {"grammar": text, "filter": "reject_shift:" + victim_t, "parser": "GLR", "expr": x}
                del f6.log[:]
                a = glrobs.parse_glr(ps, x)
                b = glrobs.parse_glr(pref, x)
                ctx.count("filter.reject_shift.glr")
                if not discipline(ctx, case, f6.log, ps.grammar):
                    continue
                if a.kind == "exc":
                    ctx.violation("filter-parse-raises:" + type(a.exc).__name__, case, str(a.exc)[:200])
                    continue
                if a.kind != b.kind:
                    ctx.violation("rejected-shift-taken-or-more-dropped", case, "rejecting every shift of %s gives %s, the grammar without that operator gives %s" % (victim_t, a.kind, b.kind))
                    continue
                if a.kind == "forest" and a.len <= 200 and set(t.to_str() for t in a.forest) != set(t.to_str() for t in b.forest):
                    ctx.violation("rejected-shift-taken-or-more-dropped", case, "forests differ from the grammar without %s" % victim_t)
                    continue
                if a.kind == "syntax" and a.err.location.start_position != b.err.location.start_position:
                    ctx.violation(
                        "rejected-shift-half-taken",
                        case,
                        "rejecting every shift of %s: error reported at %s, the grammar without that operator fails at %s (the parser went on behind the rejected shift)"
                        % (victim_t, a.err.location.start_position, b.err.location.start_position),
                    )
        # LR accept-all on the conflict-free (static priorities) grammar
        if label == "static":
            try:
                f3 = Filter(lambda *a: True)
                lf = pgx.lr(pgx.grammar(text), dynamic_filter=f3, prefer_shifts=False, prefer_shifts_over_empty=False, build_tree=True)
                l0 = pgx.lr(pgx.grammar(text), prefer_shifts=False, prefer_shifts_over_empty=False, build_tree=True)
            except Exception as e:  # noqa: BLE001
                ctx.count("lr_construction_failed:" + type(e).__name__)
                continue
            for x in exprs:
                case = {"grammar": text, "filter": "accept_all", "parser": "LR", "expr": x}
                del f3.log[:]
                ka, va = pgx.outcome(lf.parse, x)
                kb, vb = pgx.outcome(l0.parse, x)
                ctx.count("filter.accept_all.lr")
                if not discipline(ctx, case, f3.log, lf.grammar):
                    continue
                if ka != kb or (ka == "ret" and va.to_str() != vb.to_str()):
                    ctx.violation("accept-all-differs-from-no-filter", case, "LR with accept-all filter: %s, without: %s" % (ka, kb))
                    continue
                if ka == "ret":
                    completeness_lr(ctx, case, f3.log, va)
            # LR: a filter that rejects every reduction of one dynamic production - whatever the
            # parse then does (it may well fail), it never returns a tree built with that reduction
            dyn_ops2 = [o for o in ops if dynp[o]]
            if dyn_ops2:
                victim2 = "op%d" % ops.index(rng.choice(dyn_ops2))
                try:
                    f8 = Filter(lambda context, fs, ts, action, production, sub: not (action is REDUCE and len(production.rhs) == 3 and production.rhs[1].name == victim2))
                    lrj = pgx.lr(pgx.grammar(text), dynamic_filter=f8, prefer_shifts=False, prefer_shifts_over_empty=False, build_tree=True)
                except Exception as e:  # noqa: BLE001
                    ctx.count("lr_reject_construction_failed:" + type(e).__name__)
                    lrj = None
                for x in exprs if lrj is not None else []:
                    case = {"grammar": text, "filter": "reject:" + victim2, "parser": "LR", "expr": x}
                    del f8.log[:]
                    try:
                        kj, vj = pgx.outcome(lrj.parse, x)
                    except (pgx.CaseTimeout, pgx.BudgetExceeded):
                        continue
                    ctx.count("filter.reject_production.lr")
                    if not discipline(ctx, case, f8.log, lrj.grammar):
                        continue

                    def uses2(t):
                        if t.is_term():
                            return False
                        if len(t.production.rhs) == 3 and t.production.rhs[1].name == victim2:
                            return True
                        return any(uses2(c) for c in t.children)

                    if kj == "ret" and uses2(vj):
                        ctx.violation("rejected-action-taken", case, "LR: the filter rejected every reduction of %s, the returned tree contains one" % victim2)
    partial_marks(ctx, rng, ops, exprs, grammar_text)
    rr_partial_marks(ctx, rng)
    # --- precedence-encoding filter == static priorities == climbing --------------
    alld = {o: True for o in ops}
    text = grammar_text(rng, table, alld, alld, static=False, dynq=dynq)
    prec = {"op%d" % i: table[o] for i, o in enumerate(ops)}

    def decide(context, from_state, to_state, action, production, subresults):
        if action is SHIFT:
            la = (context.token if context.token is not None else context.token_ahead).symbol
            reds = [a for a in from_state.actions.get(la, []) if a.action is REDUCE and len(a.prod.rhs) == 3 and a.prod.rhs[1].name in prec]
            if not reds:
                return True
            op = reds[0].prod.rhs[1].name
            return not reduce_wins(op, la.name)
        if len(production.rhs) != 3 or production.rhs[1].name not in prec:
            return True
        la = context.token_ahead.symbol.name
        if la not in prec:
            return True
        return reduce_wins(production.rhs[1].name, la)

    def reduce_wins(op, la):
        (p1, a1), (p2, _) = prec[op], prec[la]
        return p1 > p2 or (p1 == p2 and a1 == "left")

    try:
        f4 = Filter(decide)
        lp = pgx.lr(pgx.grammar(text), dynamic_filter=f4, prefer_shifts=False, prefer_shifts_over_empty=False)
        f5 = Filter(decide)
        gp = pgx.glr(pgx.grammar(text), dynamic_filter=f5)
    except Exception as e:  # noqa: BLE001
        ctx.case((text, "precedence-build"), True)
        ctx.violation("dynamic-grammar-does-not-construct:" + type(e).__name__, {"grammar": text}, "all conflicts are marked dynamic but construction failed: %s" % str(e)[:200])
        return
    for x in exprs:
        toks = list(strip_layout(x))
        want = climb(toks, table)
        case = {"grammar": text, "filter": "precedence", "table": {k: list(v) for k, v in table.items()}, "parser": "LR", "expr": x}
        del f4.log[:]
        k, v = pgx.outcome(lp.parse, x)
        ctx.count("filter.precedence.lr")
        if discipline(ctx, case, f4.log, lp.grammar):
            if k != "ret":
                ctx.violation("precedence-filter-lr-fails", case, "%s %s" % (k, str(v)[:200]))
            elif norm(v) != want:
                ctx.violation("precedence-filter-differs-from-static-priorities", case, "LR with the precedence filter gives %s, precedence climbing %s" % (norm(v), want))
        case = dict(case, parser="GLR")
        del f5.log[:]
        a = glrobs.parse_glr(gp, x)
        ctx.count("filter.precedence.glr")
        if discipline(ctx, case, f5.log, gp.grammar):
            if a.kind != "forest" or a.len != 1:
                ctx.violation("precedence-filter-glr-not-single-tree", case, "GLR with the precedence filter: %s, %s trees" % (a.kind, a.len))
            elif norm(gp.call_actions(a.forest[0])) != want:
                ctx.violation("precedence-filter-differs-from-static-priorities", case, "GLR with the precedence filter gives %s, precedence climbing %s" % (norm(gp.call_actions(a.forest[0])), want))
            else:
                completeness_glr(ctx, case, f5.log, a.forest)


def partial_marks(ctx, rng, ops, exprs, grammar_text):
    """Only the terminals, or only the productions, are marked dynamic.  With one left
    associative level the decision "do not shift" is enough (the unmarked reduction is
    taken), with one right associative level "do not reduce" is: the conflicts count as
    dynamically resolved, the LR parser constructs and gives the conventional tree."""
    for marks, assoc in (("terminals", "left"), ("productions", "right")):
        t2 = {o: (1, assoc) for o in ops}
        dynp2 = {o: marks == "productions" for o in ops}
        dynt2 = {o: marks == "terminals" for o in ops}
        text2 = grammar_text(rng, t2, dynp2, dynt2, static=False, dynq=False)

        def decide2(context, from_state, to_state, action, production, subresults, assoc=assoc):
            if action is SHIFT:
                la = (context.token if context.token is not None else context.token_ahead).symbol
                reds = [a for a in from_state.actions.get(la, []) if a.action is REDUCE and len(a.prod.rhs) == 3 and a.prod.rhs[1].name.startswith("op")]
                return not (reds and assoc == "left")
            if len(production.rhs) != 3 or not production.rhs[1].name.startswith("op"):
                return True
            la = context.token_ahead.symbol.name
            return not (la.startswith("op") and assoc == "right")

        case0 = {"grammar": text2, "filter": "partial-marks:" + marks, "parser": "LR"}
        try:
            f7 = Filter(decide2)
            lp2 = pgx.lr(pgx.grammar(text2), dynamic_filter=f7, prefer_shifts=False, prefer_shifts_over_empty=False)
        except Exception as e:  # noqa: BLE001
            ctx.case((text2, "partial-build"), True)
            ctx.violation("dynamic-grammar-does-not-construct:" + type(e).__name__, case0, "every conflict involves a dynamic %s but the LR parser with a filter did not construct: %s" % (marks[:-1], str(e)[:200]))
            continue
        for x in exprs[:6]:
            want = climb(list(strip_layout(x)), t2)
            case = dict(case0, expr=x, table={k: list(v) for k, v in t2.items()})
            del f7.log[:]
            k, v = pgx.outcome(lp2.parse, x)
            ctx.count("filter.partial_marks.lr")
            if discipline(ctx, case, f7.log, lp2.grammar):
                if k != "ret":
                    ctx.violation("partial-marks-filter-lr-fails", case, "%s %s" % (k, str(v)[:200]))
                elif norm(v) != want:
                    ctx.violation("partial-marks-filter-differs-from-static-priorities", case, "LR gives %s, precedence climbing %s" % (norm(v), want))


RR_GRAMMAR = 'E: Pre bang | Post bang bang;\nPre: atom%s;\nPost: atom%s;\nterminals\natom: "n";\nbang: "!";'


def rr_partial_marks(ctx, rng):
    """A reduce/reduce conflict in which only one (or both) of the productions is marked
    dynamic: the conflict counts as dynamically resolved, the LR parser constructs, and a filter
    that always rejects one of the two reductions makes the parse follow the other."""
    mark_pre, mark_post = rng.choice([(True, False), (False, True), (True, True)])
    text = RR_GRAMMAR % (" {dynamic}" if mark_pre else "", " {dynamic}" if mark_post else "")
    victim = "Pre" if mark_pre else "Post"
    case0 = {"grammar": text, "filter": "rr-reject:" + victim, "parser": "LR"}
    try:
        f9 = Filter(lambda context, fs, ts, action, production, sub: not (action is REDUCE and production.symbol.name == victim))
        lp = pgx.lr(pgx.grammar(text), dynamic_filter=f9, prefer_shifts=False, prefer_shifts_over_empty=False)
    except Exception as e:  # noqa: BLE001
        ctx.case((text, "rr-build"), True)
        ctx.violation("dynamic-grammar-does-not-construct:" + type(e).__name__, case0, "the reduce/reduce conflict involves a dynamic production but the LR parser with a filter did not construct: %s" % str(e)[:200])
        return
    x = "n!" if victim == "Post" else "n!!"
    want = ["n", "!"] if victim == "Post" else ["n", "!", "!"]
    case = dict(case0, expr=x)
    del f9.log[:]
    k, v = pgx.outcome(lp.parse, x)
    ctx.count("filter.rr_partial_marks.lr")
    if discipline(ctx, case, f9.log, lp.grammar):
        if k != "ret" or v != want:
            ctx.violation("rr-filter-result", case, "rejecting every reduction of %s: %s %s, expected %s" % (victim, k, str(v)[:100], want))


def discipline(ctx, case, log, pg):
    """Call discipline of one parse."""
    n = len(log)
    ctx.case((case["grammar"], case["filter"], case["parser"], case["expr"]), n >= 3, sample={"grammar": case["grammar"], "filter": case["filter"], "parser": case["parser"], "expr": case["expr"], "calls": n})
    ctx.count("calls.total", n)
    if not log or log[0][0] != "init":
        ctx.violation("first-call-not-all-none", case, "the first call of the filter is %s" % (log[0][0] if log else "missing"))
        return False
    _, context, fs, ts, prod, sub, _ = log[0]
    if not (fs is None and ts is None and prod is None and sub is None and context is not None):
        ctx.violation("first-call-not-all-none", case, "initial call arguments: from_state=%r to_state=%r production=%r subresults=%r" % (fs, ts, prod, sub))
        return False
    for rec in log[1:]:
        if rec[0] == "init":
            ctx.violation("all-none-call-repeated", case, "the all-None call happened again inside the parse")
            return False
        if rec[0] == "shift":
            ctx.count("calls.shift")
            if not rec[1].symbol.dynamic:
                ctx.violation("filter-called-for-unmarked-shift", case, "SHIFT of %s which is not dynamic" % rec[1].symbol.name)
                return False
            if rec[4] is False:
                ctx.count("calls.rejected")
        else:
            ctx.count("calls.reduce")
            prod, nsub = rec[1], rec[2]
            if not prod.dynamic:
                ctx.violation("filter-called-for-unmarked-reduction", case, "REDUCE of %s which is not dynamic" % prod)
                return False
            if nsub != len(prod.rhs):
                ctx.violation("subresults-length", case, "REDUCE of %s with %s subresults" % (prod, nsub))
                return False
            if rec[4] is False:
                ctx.count("calls.rejected")
    return True


def completeness_glr(ctx, case, log, forest):
    accepted = set()
    rejected = set()
    shifts_ok = set()
    for rec in log[1:]:
        if rec[0] == "reduce" and rec[3] is not None:
            key = (rec[1].prod_id, rec[3])
            (accepted if rec[4] else rejected).add(key)
        elif rec[0] == "reduce" and rec[2] == 0:
            key = (rec[1].prod_id, ())
            (accepted if rec[4] else rejected).add(key)
        elif rec[0] == "shift" and rec[4]:
            shifts_ok.add((rec[2].symbol.name, rec[2].position))
    seen = set()
    st = [forest.result]
    while st:
        par = st.pop()
        if id(par) in seen:
            continue
        seen.add(id(par))
        for poss in par.possibilities:
            if poss.is_nonterm():
                st.extend(poss.children)
                if poss.production.dynamic:
                    key = (poss.production.prod_id, tuple((c.start_position, c.end_position) for c in poss.children))
                    ctx.count("completeness.reductions_checked")
                    if key not in accepted:
                        sig = "dynamic-reduction-in-forest-only-rejected" if key in rejected else "dynamic-reduction-without-filter-call"
                        ctx.violation(sig, case, "packed alternative %s with child spans %s has no accepted filter call" % (poss.production, key[1]))
                        return
            else:
                if poss.symbol.dynamic:
                    ctx.count("completeness.shifts_checked")
                    if (poss.symbol.name, poss.start_position) not in shifts_ok:
                        ctx.violation("dynamic-shift-without-filter-call", case, "leaf %s at %s has no accepted SHIFT call" % (poss.symbol.name, poss.start_position))
                        return


def completeness_lr(ctx, case, log, tree):
    acc = {}
    for rec in log[1:]:
        if rec[0] == "reduce" and rec[4]:
            acc[rec[1].prod_id] = acc.get(rec[1].prod_id, 0) + 1
    shifts_ok = set()
    for rec in log[1:]:
        if rec[0] == "shift" and rec[4]:
            shifts_ok.add((rec[2].symbol.name, rec[2].position))
    need = {}

    def walk(n):
        if n.is_term():
            if n.symbol.dynamic:
                ctx.count("completeness.shifts_checked")
                if (n.symbol.name, n.start_position) not in shifts_ok:
                    return "leaf %s at %s has no accepted SHIFT call" % (n.symbol.name, n.start_position)
            return None
        if n.production.dynamic:
            need[n.production.prod_id] = need.get(n.production.prod_id, 0) + 1
            ctx.count("completeness.reductions_checked")
        for c in n.children:
            r = walk(c)
            if r:
                return r
        return None

    r = walk(tree)
    if r:
        ctx.violation("dynamic-shift-without-filter-call", case, r)
        return
    for pid, k in need.items():
        if acc.get(pid, 0) < k:
            ctx.violation("dynamic-reduction-without-filter-call", case, "production %s occurs %d times in the tree but has %d accepted filter calls" % (pid, k, acc.get(pid, 0)))
            return


def replay(case, ctx):
    """Re-executes the stored (grammar, filter, parser, expression) case."""
    text, x = case["grammar"], case["expr"]
    kind = case["filter"]
    if kind == "accept_all":
        f = Filter(lambda *a: True)
        if case["parser"] == "GLR":
            pf = pgx.glr(pgx.grammar(text), dynamic_filter=f)
            p0 = pgx.glr(pgx.grammar(text))
            a = glrobs.parse_glr(pf, x)
            b = glrobs.parse_glr(p0, x)
            if discipline(ctx, case, f.log, pf.grammar):
                if a.kind != b.kind or (a.kind == "forest" and sorted(t.to_str() for t in a.forest) != sorted(t.to_str() for t in b.forest)):
                    ctx.violation("accept-all-differs-from-no-filter", case, "GLR accept-all %s/%s vs no filter %s/%s" % (a.kind, a.len, b.kind, b.len))
                elif a.kind == "forest":
                    completeness_glr(ctx, case, f.log, a.forest)
        else:
            lf = pgx.lr(pgx.grammar(text), dynamic_filter=f, prefer_shifts=False, prefer_shifts_over_empty=False, build_tree=True)
            l0 = pgx.lr(pgx.grammar(text), prefer_shifts=False, prefer_shifts_over_empty=False, build_tree=True)
            ka, va = pgx.outcome(lf.parse, x)
            kb, vb = pgx.outcome(l0.parse, x)
            if discipline(ctx, case, f.log, lf.grammar):
                if ka != kb or (ka == "ret" and va.to_str() != vb.to_str()):
                    ctx.violation("accept-all-differs-from-no-filter", case, "LR accept-all %s vs %s" % (ka, kb))
                elif ka == "ret":
                    completeness_lr(ctx, case, f.log, va)
    elif kind.startswith("reject:"):
        victim = kind.split(":", 1)[1]
        f2 = Filter(lambda context, fs, ts, action, production, sub: not (action is REDUCE and len(production.rhs) == 3 and production.rhs[1].name == victim))
        pr = pgx.glr(pgx.grammar(text), dynamic_filter=f2)
        p0 = pgx.glr(pgx.grammar(text))
        a = glrobs.parse_glr(pr, x)
        b = glrobs.parse_glr(p0, x)
        if discipline(ctx, case, f2.log, pr.grammar) and b.kind == "forest":

            def uses(t):
                if t.is_term():
                    return False
                if len(t.production.rhs) == 3 and t.production.rhs[1].name == victim:
                    return True
                return any(uses(c) for c in t.children)

            want = set(t.to_str() for t in b.forest if not uses(t))
            got = set(t.to_str() for t in a.forest) if a.kind == "forest" else set()
            if got != want:
                ctx.violation("rejected-action-taken-or-accepted-action-dropped", case, "%d trees, expected %d" % (len(got), len(want)))
            elif a.kind == "forest":
                completeness_glr(ctx, case, f2.log, a.forest)
    else:
        ctx.count("replay_precedence_filter_case_is_self_describing")
