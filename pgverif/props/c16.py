"""C16 - tables and forests are deterministic across processes and hash seeds."""

import hashlib
import json
import os
import subprocess
import sys

ID = "C16"
LEVEL = "exploration"
RULE = (
    "cases = (grammar text, options): random grammars with 3-8 terminals whose names are drawn from a pool of strings that order "
    "differently under different string hash seeds, many with reduce/reduce and shift/reduce conflict cells and ambiguous forests; "
    "each batch of grammars is processed by N interpreter processes with different PYTHONHASHSEED (N=4 quick, 16 thorough) and twice "
    "inside one process; each process records sha256 of the sorted-key JSON dump of the serialised table (LALR and SLR, LR and GLR "
    "option sets), the bytes written by save_table, the list of conflict reports in order, and to_str() of forest[0..n) for every "
    "sentence up to the bound; the offline checker demands identical records. Non-trivial = grammar with a conflict cell or an "
    "ambiguous forest; distinct = grammar text."
)
ASSUMPTIONS = ["child interpreters differ only in PYTHONHASHSEED"]

NAMES = ["a", "b", "c", "aa", "ab", "ba", "x1", "x2", "t_a", "t_b", "Za", "zA", "k", "q7", "alpha", "beta", "gamma", "w"]


def plan(tier):
    return {"nshards": 4 if tier == "quick" else 2, "budget_s": 55 if tier == "quick" else 400}


def required(tier):
    return {
        "nontrivial": 100 if tier == "quick" else 1000,
        "processes": 8,
        "records.compared": 500,
        "grammars.with_rr_conflict": 20,
        "grammars.with_sr_conflict": 50,
        "forests.ambiguous": 200,
        "hash_seeds": 4,
        "grammars.modular": 10,
        "grammars.with_priorities": 20,
        "grammars.multi_revisit": 5,
        "grammars.with_dynamic_marks": 20,
    }


def gen_grammar(rng):
    from pgverif import cfg

    for _ in range(100):
        nt = rng.choice([2, 3, 3, 4])
        k = rng.randint(3, 8)
        names = rng.sample(NAMES, k)
        chars = "abcdefgh"
        tdefs = {n: cfg.TDef("str", chars[i]) for i, n in enumerate(names)}
        if rng.random() < 0.3:
            # lexical ambiguity: one terminal is a regex that also matches another terminal's text
            # (several tokens at one position; GLR pursues them all)
            i, j = rng.sample(range(k), 2)
            tdefs[names[i]] = cfg.TDef("re", "[%s%s]" % (chars[i], chars[j]))
        nts = cfg.NT_NAMES[:nt]
        prods = []
        for n in nts:
            seen = set()
            for _ in range(rng.randint(1, 3)):
                L = rng.choice([0, 1, 1, 2, 2, 3])
                r = tuple(rng.choice(nts + names) for _ in range(L))
                if r not in seen:
                    seen.add(r)
                    prods.append((n, r))
        g = cfg.G(prods, "S", tdefs)
        if g.ok() and not g.cyclic() and len(g.terms) >= 2:
            return g
    return None


def gen_fork_grammar(rng):
    """Grammars biased towards what makes the GLR driver revisit several processed
    heads for one new link: a reduce/reduce fork (two rules with the same terminal
    alternative) and a nullable tail."""
    from pgverif import cfg

    for _ in range(100):
        nt = rng.choice([4, 5, 6])
        names = rng.sample(NAMES, rng.randint(3, 6))
        chars = "abcdefgh"
        tdefs = {n: cfg.TDef("str", chars[i]) for i, n in enumerate(names)}
        nts = cfg.NT_NAMES[:nt]
        prods = []
        for n in nts:
            for _ in range(rng.randint(1, 3)):
                L = rng.choice([1, 1, 2, 2, 3])
                prods.append((n, tuple(rng.choice(nts + names + names) for _ in range(L))))
        a, b = rng.sample(nts[1:], 2)
        t = (rng.choice(names),)
        prods += [(a, t), (b, t), (rng.choice(nts[1:]), ())]
        prods = list(dict.fromkeys(prods))
        g = cfg.G(prods, "S", tdefs)
        if g.ok() and not g.cyclic() and len(g.terms) >= 2:
            return g
    return None


def search_multi_revisit(rng, mon, still_running, found, limit=40):
    """Monitor-guided workload selection, run while the child interpreters work: keep
    the grammars on which the GSS monitor saw one new link trigger the revisit of two
    or more already processed heads - the situations in which a processing order
    derived from hashing would show in the forest."""
    from pgverif import cfg, glrobs, pgx

    while still_running() and len(found) < limit:
        g = gen_fork_grammar(rng)
        if g is None:
            continue
        alph = "".join(dict.fromkeys(ch for t in g.terms for ch in g.tdefs[t].text if ch.isalpha()))[:3]
        try:
            p = pgx.glr(pgx.grammar(g.text()))
        except Exception:  # noqa: BLE001
            continue
        hot = []
        for w in cfg.all_strings(alph, 4):
            if not cfg.Chart(g, w, skip=cfg.skip_none).is_sentence():
                continue
            try:
                glrobs.parse_glr(p, w)
            except Exception:  # noqa: BLE001
                continue
            if mon.c["multi_revisit"]:
                hot.append(w)
            if len(hot) >= 8:
                break
        if hot:
            found.append({"grammar": g.text(), "inputs": hot, "multi_revisit": True})


def gen_modular(rng):
    """Root importing two files that define terminals (and rules) with the same
    local names; both terminals become lookaheads of one reduction."""
    names = rng.sample(["W", "T", "x1", "Za", "k"], 2)
    t1, t2 = names[0], names[0]  # same local name in both files
    extra = names[1]
    la, lb = rng.sample(["a", "b"], 2)
    files = {
        la + ".pg": "A: %s | %s A | %s;\nterminals\n%s: \"x\";\n%s: \"p\";\n" % (t1, t1, extra, t1, extra),
        lb + ".pg": "A: %s | %s A | %s;\nterminals\n%s: \"y\";\n%s: \"q\";\n" % (t2, t2, extra, t2, extra),
    }
    alts = ["L %s.A" % la, "L %s.A" % lb, "%s.A %s.A" % (la, lb), "L"]
    rng.shuffle(alts)
    files["root.pg"] = "import '%s.pg';\nimport '%s.pg';\nS: %s;\nL: \"l\" | L \"l\" | EMPTY;\n" % (la, lb, " | ".join(alts[: rng.randint(2, 4)]))
    inputs = ["lx", "ly", "llxx", "xy", "lp", "l", "", "xxy", "lq", "yx"]
    return {"files": files, "grammar": "\n".join("# %s\n%s" % kv for kv in sorted(files.items())), "inputs": inputs}


def run(ctx):
    from pgverif import cfg, runner

    nproc = 4 if ctx.tier == "quick" else 16
    from pgverif.mon.gss import GssMonitor

    gmon = GssMonitor(check_closure=False)
    gmon.install()
    found = []
    while ctx.more():
        batch = []
        while found and len([b for b in batch if b.get("multi_revisit")]) < 12:
            batch.append(found.pop())
            ctx.count("grammars.multi_revisit")
        for _ in range(12):
            g = gen_grammar(ctx.rng)
            if g is None:
                continue
            alph = "".join(dict.fromkeys(ch for t in g.terms for ch in g.tdefs[t].text if ch.isalpha()))[:3]
            inputs = [w for w in cfg.all_strings(alph, 4) if cfg.Chart(g, w, skip=cfg.skip_none).is_sentence()][:12]
            meta = {}
            if ctx.rng.random() < 0.5:
                # priorities / associativities: conflict cells resolved (or not) by priority
                for pi in range(len(g.prods)):
                    if ctx.rng.random() < 0.4:
                        meta[pi] = ctx.rng.choice(["1", "5", "15", "20", "left", "right", "left, 5", "right, 15"])
                ctx.count("grammars.with_priorities")
            gtext = g.text(prod_meta=meta)
            if ctx.rng.random() < 0.3:
                # dynamic marks (several terminals / productions per state): part of the table too
                lines = gtext.split("\n")
                k = lines.index("terminals") if "terminals" in lines else len(lines)
                for i in range(len(lines)):
                    if lines[i].endswith(";") and ctx.rng.random() < 0.6:
                        if i > k and "{" not in lines[i]:
                            lines[i] = lines[i][:-1] + " {dynamic};"
                gtext = "\n".join(lines)
                for pi in range(len(g.prods)):
                    if pi not in meta and ctx.rng.random() < 0.4:
                        meta[pi] = "dynamic"
                lines2 = g.text(prod_meta=meta).split("\n")
                k2 = lines2.index("terminals") if "terminals" in lines2 else len(lines2)
                gtext = "\n".join(lines2[:k2] + lines[k:])
                ctx.count("grammars.with_dynamic_marks")
            batch.append({"grammar": gtext, "inputs": inputs})
        for _ in range(4):
            batch.append(gen_modular(ctx.rng))
            ctx.count("grammars.modular")
        seeds = [str(ctx.rng.randrange(1, 2**31)) for _ in range(nproc - 1)] + ["0"]
        outs = []
        procs = []
        import tempfile

        tmpd = tempfile.mkdtemp(prefix="pgv-c16-")
        with open(os.path.join(tmpd, "batch.json"), "w") as f:
            json.dump(batch, f)
        for hs in seeds:
            env = runner.worker_env()
            env["PYTHONHASHSEED"] = hs
            outp = os.path.join(tmpd, "out.%s.json" % hs)
            procs.append((hs, outp, subprocess.Popen([runner.PY, "-m", "pgverif.props.c16", os.path.join(tmpd, "batch.json"), outp], stdout=subprocess.DEVNULL, stderr=subprocess.DEVNULL, env=env, cwd=runner.ROOT)))
        # while the children work: look for grammars for the next batch
        search_multi_revisit(ctx.rng, gmon, lambda: any(p.poll() is None for _, _, p in procs), found)
        for hs, outp, p in procs:
            try:
                p.wait(timeout=300)
                outs.append((hs, json.load(open(outp))))
                ctx.count("processes")
                ctx.seen("hash_seeds", hs)
            except Exception as e:  # noqa: BLE001
                p.kill()
                ctx.inconc("child with PYTHONHASHSEED=%s failed: %s" % (hs, type(e).__name__))
        import shutil

        shutil.rmtree(tmpd, ignore_errors=True)
        if len(outs) < 2:
            continue
        ref_seed, ref = outs[0]
        for i, item in enumerate(batch):
            recs = [(hs, o[i]) for hs, o in outs]
            r0 = recs[0][1]
            ctx.case(item["grammar"], bool(r0["sr"] or r0["rr"] or r0["ambiguous"]), sample={"grammar": item["grammar"], "record_sha": hashlib.sha256(json.dumps(r0, sort_keys=True).encode()).hexdigest()[:16], "hash_seeds": [hs for hs, _ in recs]})
            if r0["rr"]:
                ctx.count("grammars.with_rr_conflict")
            if r0["sr"]:
                ctx.count("grammars.with_sr_conflict")
            ctx.count("forests.ambiguous", r0["ambiguous"])
            if r0.get("repeat_differs"):
                ctx.violation("differs-within-one-process", {"grammar": item["grammar"], "inputs": item["inputs"]}, "two constructions in one process differ: %s" % r0["repeat_differs"])
                continue
            for hs, r in recs[1:]:
                ctx.count("records.compared")
                if r != r0:
                    keys = [k for k in r0 if r0[k] != r.get(k)]
                    ctx.violation(
                        "differs-across-hash-seeds:" + ",".join(keys),
                        {"grammar": item["grammar"], "files": item.get("files"), "inputs": item["inputs"], "seeds": [ref_seed, hs]},
                        "PYTHONHASHSEED=%s and %s disagree on %s: %s vs %s" % (ref_seed, hs, keys, str([r0[k] for k in keys])[:300], str([r.get(k) for k in keys])[:300]),
                    )
                    break


def record(item):
    """Runs in the child: everything a user could observe for this grammar."""
    import tempfile

    from parglare.tables.persist import save_table, table_to_serializable

    from pgverif import glrobs, pgx

    def one():
        import shutil

        moddir = None
        if item.get("files"):
            moddir = tempfile.mkdtemp(prefix="pgv-c16m-")
            for fn, ft in item["files"].items():
                with open(os.path.join(moddir, fn), "w") as fh:
                    fh.write(ft)
        try:
            return one_in(moddir)
        finally:
            if moddir:
                shutil.rmtree(moddir, ignore_errors=True)

    def one_in(moddir):
        rec = {"tables": {}, "sr": [], "rr": [], "forests": [], "ambiguous": 0, "errors": []}
        text = item["grammar"]
        for kind in ("LR", "GLR"):
            for tb in ("LALR", "SLR"):
                try:
                    if item.get("files"):
                        with pgx.quiet():
                            import parglare

                            pg = parglare.Grammar.from_file(os.path.join(moddir, "root.pg"))
                    else:
                        pg = pgx.grammar(text)
                    kw = dict(tables=pgx.LALR if tb == "LALR" else pgx.SLR)
                    try:
                        p = pgx.lr(pg, **kw) if kind == "LR" else pgx.glr(pg, **kw)
                    except Exception as e:  # noqa: BLE001
                        rec["tables"][kind + tb] = "ctor:" + type(e).__name__ + ":" + str(e)[:200]
                        continue
                    if moddir:
                        if kind == "GLR" and tb == "LALR":
                            # a cached table damaged by an interrupted write: the table computed instead
                            # (and cached again) is the same table
                            pgc = os.path.join(moddir, "root.pgc")
                            if os.path.exists(pgc):
                                import time

                                with open(pgc, "w") as fh:
                                    fh.write('[{"acti')
                                t = time.time() + 50
                                os.utime(pgc, (t, t))
                                with pgx.quiet():
                                    import parglare

                                    p2 = parglare.GLRParser(parglare.Grammar.from_file(os.path.join(moddir, "root.pg")), **kw)
                                if json.dumps(table_to_serializable(p2.table), sort_keys=True) != json.dumps(table_to_serializable(p.table), sort_keys=True):
                                    rec["damaged_cache_table_differs"] = True
                        # never let the table cache of one construction feed the next (KF-C12-1)
                        for fn in os.listdir(moddir):
                            if ".pgc" in fn:
                                os.remove(os.path.join(moddir, fn))
                    ser = json.dumps(table_to_serializable(p.table), sort_keys=True)
                    with tempfile.NamedTemporaryFile(suffix=".pgc") as f:
                        save_table(f.name, p.table)
                        data = open(f.name, "rb").read()
                    rec["tables"][kind + tb] = [hashlib.sha256(ser.encode()).hexdigest(), hashlib.sha256(data).hexdigest()]
                    if kind == "GLR":
                        rec["sr"].append([(c.state.state_id, c.term.name, [q.prod_id for q in c.productions]) for c in p.table.sr_conflicts])
                        rec["rr"].append([(c.state.state_id, c.term.name, [q.prod_id for q in c.productions]) for c in p.table.rr_conflicts])
                        if tb == "LALR":
                            # several accepted heads: the order in which they are merged must not depend on hashing
                            try:
                                pp = pgx.glr(pg, consume_input=False)
                                for w in item["inputs"][:6]:
                                    o = glrobs.parse_glr(pp, w + w)
                                    if o.kind == "forest" and not o.loop:
                                        rec["forests"].append(["prefix-mode", w + w, o.len, [o.forest[i].to_str() for i in range(min(o.len, 12))]])
                                        if o.len > 1:
                                            rec["ambiguous"] += 1
                                    else:
                                        rec["forests"].append(["prefix-mode", w + w, o.kind])
                            except Exception as e:  # noqa: BLE001
                                rec["errors"].append("prefix-mode:" + type(e).__name__)
                            for w in item["inputs"]:
                                o = glrobs.parse_glr(p, w)
                                if o.kind == "forest" and not o.loop:
                                    n = min(o.len, 12)
                                    rec["forests"].append([w, o.len, [o.forest[i].to_str() for i in range(n)], o.forest.ambiguities])
                                    if o.len > 1:
                                        rec["ambiguous"] += 1
                                else:
                                    rec["forests"].append([w, o.kind])
                            # the documented pass-through token recognition callback: same forests, same order
                            try:
                                pc = pgx.glr(pg, custom_token_recognition=lambda head, get_tokens: get_tokens())
                                for w in item["inputs"][:6]:
                                    o = glrobs.parse_glr(pc, w)
                                    if o.kind == "forest" and not o.loop:
                                        rec["forests"].append(["callback", w, o.len, [o.forest[i].to_str() for i in range(min(o.len, 12))]])
                                    else:
                                        rec["forests"].append(["callback", w, o.kind])
                            except Exception as e:  # noqa: BLE001
                                rec["errors"].append("callback:" + type(e).__name__)
                except Exception as e:  # noqa: BLE001
                    rec["errors"].append(type(e).__name__ + ":" + str(e)[:100])
        rec["sr"] = [x for x in rec["sr"] if x] and rec["sr"]
        rec["rr"] = [x for x in rec["rr"] if x] and rec["rr"]
        return rec

    a = one()
    b = one()
    if a != b:
        a["repeat_differs"] = [k for k in a if a[k] != b[k]]
    if a.pop("damaged_cache_table_differs", None):
        a["repeat_differs"] = (a.get("repeat_differs") or []) + ["table computed after a damaged cache differs from the table computed without one"]
    b.pop("damaged_cache_table_differs", None)
    return a


def replay(case, ctx):
    from pgverif import runner

    import shutil
    import tempfile

    outs = []
    tmpd = tempfile.mkdtemp(prefix="pgv-c16-")
    with open(os.path.join(tmpd, "batch.json"), "w") as f:
        json.dump([{"grammar": case["grammar"], "files": case.get("files"), "inputs": case["inputs"]}], f)
    for hs in case.get("seeds", ["0", "1"]):
        env = runner.worker_env()
        env["PYTHONHASHSEED"] = str(hs)
        outp = os.path.join(tmpd, "out.%s.json" % hs)
        subprocess.run([runner.PY, "-m", "pgverif.props.c16", os.path.join(tmpd, "batch.json"), outp], env=env, cwd=runner.ROOT, timeout=600)
        outs.append(json.load(open(outp))[0])
    shutil.rmtree(tmpd, ignore_errors=True)
    if outs[0] != outs[1]:
        keys = [k for k in outs[0] if outs[0][k] != outs[1].get(k)]
        ctx.violation("differs-across-hash-seeds:" + ",".join(keys), case, "records differ on %s" % keys)


if __name__ == "__main__":
    batch = json.load(open(sys.argv[1]))
    out = []
    for item in batch:
        try:
            out.append(record(item))
        except Exception as e:  # noqa: BLE001
            out.append({"tables": {}, "sr": [], "rr": [], "forests": [], "ambiguous": 0, "errors": ["record:" + type(e).__name__ + str(e)[:100]]})
    with open(sys.argv[2], "w") as f:
        json.dump(out, f)
