"""C06 - priorities and associativity give the conventional operator-precedence parse."""

import parglare
import parglare.tables as T

from pgverif import cfg, glrobs, pgx
from pgverif.mon.cover import Cover
from pgverif.mon.lr import LRMonitor

ID = "C06"
LEVEL = "exploration"
RULE = (
    "cases = (operator table, expression): random tables of 1-6 binary operators over 1-6 priority levels, left/right per level, "
    "random order of alternatives, parentheses, x random expressions (depth <= 4) and corrupted expressions; Parser with all "
    "strategies off must construct without conflicts and give the tree of an independent precedence-climbing parser, GLRParser exactly "
    "that single tree; second clause: the stratified LALR(1) grammar of the same table with random priorities/associativities added "
    "must accept the same inputs and give the same trees as without them. Non-trivial = expression with >= 2 operators; distinct = "
    "(grammar text, expression)."
)
ASSUMPTIONS = ["precedence climbing (pgverif/props/c06.py climb) is the specification of the conventional parse"]

OPS = "+-*/^%"


def plan(tier):
    return {"nshards": 16, "budget_s": 35 if tier == "quick" else 300}


def required(tier):
    return {
        "nontrivial": 1500 if tier == "quick" else 15000,
        "tables": 150,
        "lr_trees_compared": 3000,
        "glr_trees_compared": 3000,
        "stratified.trees_compared": 1000,
        "rejections_compared": 300,
        "shape.levels>=3": 20,
        "shape.right_assoc": 20,
        "shape.left_assoc": 20,
        "shape.rule_level_inheritance": 30,
        "shape.strategy_marks": 20,
        "shape.operators_as_groups": 30,
        "cover.create_table": 60,
    }


def climb(tokens, table):
    pos = [0]

    def atom():
        t = tokens[pos[0]]
        pos[0] += 1
        if t == "(":
            e = expr(0)
            pos[0] += 1
            return ("(", e, ")")
        return t

    def expr(minp):
        lhs = atom()
        while pos[0] < len(tokens) and tokens[pos[0]] in table and table[tokens[pos[0]]][0] >= minp:
            op = tokens[pos[0]]
            p, a = table[op]
            pos[0] += 1
            rhs = expr(p + 1 if a == "left" else p)
            lhs = (lhs, op, rhs)
        return lhs

    return expr(0)


def norm(r):
    if isinstance(r, list):
        if len(r) == 3:
            return (norm(r[0]), norm(r[1]), norm(r[2]))
        if len(r) == 1:
            return norm(r[0])
    return r


def gen_expr(rng, ops, depth):
    if depth == 0 or rng.random() < 0.3:
        return ["n"]
    k = rng.random()
    if k < 0.15:
        return ["("] + gen_expr(rng, ops, depth - 1) + [")"]
    return gen_expr(rng, ops, depth - 1) + [rng.choice(ops)] + gen_expr(rng, ops, depth - 1)


def corrupt(rng, toks, ops):
    toks = list(toks)
    k = rng.randrange(3)
    i = rng.randrange(len(toks) + 1)
    if k == 0:
        toks.insert(i, rng.choice(list(ops) + ["n", "(", ")"]))
    elif k == 1 and toks:
        del toks[min(i, len(toks) - 1)]
    elif toks:
        toks[min(i, len(toks) - 1)] = rng.choice(list(ops) + ["n", "(", ")"])
    return toks


def well_formed(toks, ops):
    """Independent recogniser of the expression language."""
    pos = [0]

    def atom():
        if pos[0] >= len(toks):
            return False
        t = toks[pos[0]]
        pos[0] += 1
        if t == "n":
            return True
        if t == "(":
            if not expr():
                return False
            if pos[0] < len(toks) and toks[pos[0]] == ")":
                pos[0] += 1
                return True
        return False

    def expr():
        if not atom():
            return False
        while pos[0] < len(toks) and toks[pos[0]] in ops:
            pos[0] += 1
            if not atom():
                return False
        return True

    return expr() and pos[0] == len(toks)


def make_table(rng):
    nops = rng.randint(1, 6)
    ops = rng.sample(OPS, nops)
    nlev = rng.randint(1, nops)
    levels = [rng.randint(1, nlev) for _ in ops]
    lev_assoc = {l: rng.choice(["left", "right"]) for l in set(levels)}
    return {o: (l, lev_assoc[l]) for o, l in zip(ops, levels)}


def ambiguous_grammar(rng, table):
    """The operator grammar; 40% of the time priorities / associativities are
    (partly) inherited from rule-level meta-data instead of being spelled on
    every production."""
    alts = []
    header = "E"
    default = None
    # levels are written as arbitrary strictly increasing priorities (0, the default 10 and big values included)
    levels = sorted(set(l for l, _ in table.values()))
    pool = [0, 1, 2, 3, 5, 9, 10, 11, 12, 20, 50, 1000]
    start = rng.randint(0, len(pool) - len(levels))
    prio = dict(zip(levels, pool[start : start + len(levels)]))
    table = {o: (prio[l], a) for o, (l, a) in table.items()}
    marks = rng.random() < 0.3
    if rng.random() < 0.4:
        default = table[rng.choice(sorted(table))]  # (priority, assoc) of one operator
        header = "E {%s, %d%s}" % (default[1], default[0], ", nops" if marks and rng.random() < 0.5 else "")
    elif marks and rng.random() < 0.3:
        header = "E {nops}"
    for o, (lvl, assoc) in table.items():
        a = {"left": rng.choice(["left", "reduce"]), "right": rng.choice(["right", "shift"])}[assoc]
        meta = [a, str(lvl)]
        if default is not None:
            same_p, same_a = lvl == default[0], assoc == default[1]
            if same_p and same_a and rng.random() < 0.7:
                meta = []
            elif same_a and rng.random() < 0.6:
                meta = [str(lvl)]
            elif same_p and rng.random() < 0.6:
                meta = [a]
        # the strategy switches nops / nopse only concern conflicts that priorities and
        # associativity leave open: they must not change a conflict these decide
        if marks and rng.random() < 0.4:
            meta.append(rng.choice(["nops", "nopse"]))
        rng.shuffle(meta)
        alts.append('E "%s" E%s' % (o, (" {%s}" % ", ".join(meta)) if meta else ""))
    alts += ['"(" E ")"', '"n"']
    rng.shuffle(alts)
    return header + ": " + " | ".join(alts) + ";"


def grouped_grammar(rng, table):
    """One rule definition per level, its meta-data at rule level, the operators of the level
    written as a parenthesised group: E {left, 1}: E ("+" | "-") E;"""
    levels = sorted(set(l for l, _ in table.values()))
    pool = [0, 1, 2, 3, 5, 9, 10, 11, 12, 20, 50, 1000]
    start = rng.randint(0, len(pool) - len(levels))
    prio = dict(zip(levels, pool[start : start + len(levels)]))
    lines = []
    for l in levels:
        ops = [o for o, (lv, _) in table.items() if lv == l]
        assoc = table[ops[0]][1]
        a = {"left": rng.choice(["left", "reduce"]), "right": rng.choice(["right", "shift"])}[assoc]
        meta = [a, str(prio[l])]
        rng.shuffle(meta)
        lines.append("E {%s}: E (%s) E;" % (", ".join(meta), " | ".join('"%s"' % o for o in ops)))
    lines.append('E: "(" E ")" | "n";')
    rng.shuffle(lines)
    return "\n".join(lines)


def stratified_grammar(table, rng=None, decorate=False):
    """Unambiguous (LALR(1)) grammar for the same table: one level per priority."""
    levels = sorted(set(l for l, _ in table.values()))
    names = {l: "E%d" % i for i, l in enumerate(levels)}
    lines = []
    for i, l in enumerate(levels):
        nxt = names[levels[i + 1]] if i + 1 < len(levels) else "P"
        me = names[l]
        alts = []
        for o, (lv, assoc) in table.items():
            if lv != l:
                continue
            a = '%s "%s" %s' % (me, o, nxt) if assoc == "left" else '%s "%s" %s' % (nxt, o, me)
            if decorate:
                meta = []
                if rng.random() < 0.6:
                    meta.append(rng.choice(["left", "right"]))
                if rng.random() < 0.6:
                    meta.append(str(rng.randint(1, 20)))
                if meta:
                    a += " {%s}" % ", ".join(meta)
            alts.append(a)
        alts.append(nxt)
        if rng is not None:
            rng.shuffle(alts)
        lines.append("%s: %s;" % (me, " | ".join(alts)))
    lines.append('P: "(" %s ")" | "n";' % names[levels[0]])
    return "\n".join(lines)


def flatten(r):
    """Stratified parse result -> operator tree (unit wrappers removed)."""
    if isinstance(r, list):
        if len(r) == 3:
            return (flatten(r[0]), flatten(r[1]), flatten(r[2]))
        if len(r) == 1:
            return flatten(r[0])
    return r


def run(ctx):
    cover = Cover({"create_table": T.create_table})
    cover.install()
    mon = LRMonitor()
    mon.install()
    try:
        while ctx.more():
            one_table(ctx)
    finally:
        mon.uninstall()
        cover.uninstall()
    cover.report(ctx)


def one_table(ctx):
    rng = ctx.rng
    table = make_table(rng)
    ops = list(table)
    if rng.random() < 0.2:
        text = grouped_grammar(rng, table)
        ctx.count("shape.operators_as_groups")
    else:
        text = ambiguous_grammar(rng, table)
    if "nops" in text:
        ctx.count("shape.strategy_marks")
    case0 = {"grammar": text, "table": {k: list(v) for k, v in table.items()}}
    nlev = len(set(l for l, _ in table.values()))
    ctx.count("tables")
    if text.startswith("E {"):
        ctx.count("shape.rule_level_inheritance")
    ctx.count("shape.levels>=3" if nlev >= 3 else "shape.levels<3")
    for _, a in table.values():
        ctx.count("shape.%s_assoc" % a)
    try:
        pg = pgx.grammar(text)
        lr = pgx.lr(pg, prefer_shifts=False, prefer_shifts_over_empty=False)
        glr = pgx.glr(pg)
    except Exception as e:  # noqa: BLE001
        ctx.case((text, "build"), True)
        ctx.violation("construction-fails:" + type(e).__name__, case0, "Parser with strategies off did not construct for a fully prioritised operator grammar: %s %s" % (type(e).__name__, str(e)[:150]))
        return
    # second clause parsers
    strat_plain = stratified_grammar(table, random_copy(rng), decorate=False)
    strat_deco = stratified_grammar(table, random_copy(rng), decorate=True)
    sp = sd = None
    try:
        sp = pgx.lr(pgx.grammar(strat_plain), prefer_shifts=False, prefer_shifts_over_empty=False)
    except Exception as e:  # noqa: BLE001
        ctx.count("stratified.plain_not_lalr")
    if sp is not None:
        try:
            sd = pgx.lr(pgx.grammar(strat_deco), prefer_shifts=False, prefer_shifts_over_empty=False)
        except Exception as e:  # noqa: BLE001
            ctx.case((strat_deco, "build"), True)
            ctx.violation("stratified-decorated-fails:" + type(e).__name__, dict(case0, stratified=strat_deco), "adding priorities/associativities to an LALR(1) grammar made construction fail: %s" % str(e)[:150])
    n = 25 if ctx.tier == "quick" else 40
    for _ in range(n):
        toks = gen_expr(rng, ops, rng.choice([2, 3, 3, 4]))
        if len(toks) > 17:
            continue
        if rng.random() < 0.2:
            toks = corrupt(rng, toks, ops)
        sep = rng.choice([" ", "", "  "])
        expr = sep.join(toks)
        check_expr(ctx, dict(case0, expr=expr, stratified=strat_deco, stratified_plain=strat_plain), table, toks, expr, lr, glr, sp, sd)


def random_copy(rng):
    import random

    return random.Random(rng.random())


def check_expr(ctx, case, table, toks, expr, lr, glr, sp, sd):
    ops = list(table)
    ok = well_formed(toks, ops)
    key = (case["grammar"], expr)
    nops = sum(1 for t in toks if t in table)
    ctx.case(key, nops >= 2, sample={"grammar": case["grammar"], "expr": expr, "well_formed": ok})
    kind, val = pgx.outcome(lr.parse, expr)
    if not ok:
        ctx.count("rejections_compared")
        if kind != "syntax":
            ctx.violation("accepts-ill-formed", case, "Parser returned %s for an ill-formed expression" % kind)
        gk = glrobs.parse_glr(glr, expr)
        if gk.kind != "syntax":
            ctx.violation("glr-accepts-ill-formed", case, "GLRParser returned %s for an ill-formed expression" % gk.kind)
        if sp is not None and sd is not None:
            a, _ = pgx.outcome(sp.parse, expr)
            b, _ = pgx.outcome(sd.parse, expr)
            if a != b:
                ctx.violation("stratified-language-changed", case, "plain stratified grammar: %s, with priorities: %s" % (a, b))
        return
    want = climb(toks, table)
    if kind != "ret":
        ctx.violation("rejects-expression", case, "Parser: %s %s" % (kind, str(val)[:200]))
        return
    got = norm(val)
    ctx.count("lr_trees_compared")
    if got != want:
        ctx.violation("lr-tree-differs", case, "Parser gives %s, precedence climbing gives %s" % (got, want))
        return
    go = glrobs.parse_glr(glr, expr)
    if go.kind != "forest" or go.len != 1:
        ctx.violation("glr-not-single-tree", case, "GLRParser: %s with %s trees" % (go.kind, go.len))
        return
    gt = norm(glr.call_actions(go.forest[0]))
    ctx.count("glr_trees_compared")
    if gt != want:
        ctx.violation("glr-tree-differs", case, "GLR gives %s, precedence climbing gives %s" % (gt, want))
        return
    if sp is not None and sd is not None:
        a = pgx.outcome(sp.parse, expr)
        b = pgx.outcome(sd.parse, expr)
        if a[0] != "ret" or b[0] != "ret":
            ctx.violation("stratified-language-changed", case, "plain: %s decorated: %s" % (a[0], b[0]))
            return
        ctx.count("stratified.trees_compared")
        if a[1] != b[1]:
            ctx.violation("stratified-tree-changed", case, "adding priorities/associativities changed the tree: %s vs %s" % (a[1], b[1]))
            return
        if flatten(a[1]) != want:
            # the stratified grammar is the textbook encoding of the same table
            ctx.violation("stratified-differs-from-climbing", case, "stratified %s climbing %s" % (flatten(a[1]), want))


def replay(case, ctx):
    table = {k: tuple(v) for k, v in case["table"].items()}
    pg = pgx.grammar(case["grammar"])
    lr = pgx.lr(pg, prefer_shifts=False, prefer_shifts_over_empty=False)
    glr = pgx.glr(pg)
    if "expr" not in case:
        return
    sp = sd = None
    try:
        sp = pgx.lr(pgx.grammar(case["stratified_plain"]), prefer_shifts=False, prefer_shifts_over_empty=False)
        sd = pgx.lr(pgx.grammar(case["stratified"]), prefer_shifts=False, prefer_shifts_over_empty=False)
    except Exception:  # noqa: BLE001
        sp = sd = None
    expr = case["expr"]
    toks = [c for c in expr if c != " "]
    check_expr(ctx, case, table, toks, expr, lr, glr, sp, sd)
