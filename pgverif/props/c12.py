"""C12 - the table cache is transparent whatever its age, origin or completeness."""

import hashlib
import json
import os
import shutil
import subprocess
import sys
import tempfile

import parglare
import parglare.tables as T
import parglare.tables.persist as TP
from parglare.closure import LR_0, LR_1

from pgverif import cfg, glrobs, pgx
from pgverif.props import glrwork

ID = "C12"
LEVEL = "fault_enumeration"
RULE = (
    "cases = operation histories over one grammar directory (root grammar + imported file) with operations {construct Parser / "
    "GLRParser under varying prefer_shifts / prefer_shifts_over_empty / tables / lexical_disambiguation, edit root, edit imported "
    "file, touch, make the cache older, 'pglr compile' (force_create), truncate the .pgc to k bytes (crash point), kill a real writer "
    "process after k bytes}; after every construction the table (captured by the create_load_table monitor) and probe parses are "
    "compared with a parser built in a fresh directory without any cache; mtimes are driven by a logical clock; plus save/load "
    "round trips over random grammars x options (serialisable equality, conflicts, dynamic marks, byte-identical re-save); plus "
    "histories over a directory with error examples (root.pge): construct, edit root / imported file / examples, touch, age or "
    "truncate the .pgec - SyntaxError.hint of probe parses equals that of the same constructor in a fresh directory. "
    "Non-trivial = construction that found a .pgc on disk (fresh, stale, foreign or truncated) or a round trip of a table with "
    ">= 4 states; distinct = (directory content, cache state, constructor options)."
)
ASSUMPTIONS = [
    "the oracle is the same constructor run in a fresh copy of the directory with no .pgc present",
    "KF-C12-1 (options are not part of the cache key) is attributed only when the monitor saw the table being loaded from a file whose last writer had other effective options and the loaded table equals what those options produce for the current grammar files",
]

ALPH = "n+*"

ROOTS = [
    # (root text using base.N, description)
    'import "base.pg";\nE: E "+" E | E "*" E | base.N;',
    'import "base.pg";\nE: E "+" E {left, 1} | E "*" E {left, 2} | base.N;',
    'import "base.pg";\nE: E "+" T | T;\nT: T "*" base.N | base.N;',
    'import "base.pg";\nE: base.N E | base.N | EMPTY;',
    'import "base.pg";\nE: E "+" E {dynamic} | base.N "*"? ;',
    'import "base.pg" as b;\nE: b.N+ | E "+" E;',
]
BASES = [
    'N: "n";',
    'N: "n" | "n" "n";',
    'N: M;\nM: "n" | EMPTY;',
    'N: x;\nterminals\nx: /n+/;',
]

KINDS = [
    ("Parser", {}),
    ("GLRParser", {}),
    ("Parser", {"prefer_shifts": False}),
    ("Parser", {"prefer_shifts": False, "prefer_shifts_over_empty": False}),
    ("Parser", {"tables": "SLR"}),
    ("GLRParser", {"tables": "SLR"}),
    ("GLRParser", {"prefer_shifts": True}),
    ("GLRParser", {"lexical_disambiguation": True}),
    ("Parser", {"lexical_disambiguation": False}),
    ("compile", {}),
    ("compile", {"prefer_shifts": True}),
]


def plan(tier):
    return {"nshards": 16, "budget_s": 45 if tier == "quick" else 420}


def required(tier):
    return {
        "hints.constructions_compared": 300,
        "roundtrip.dynamic_terminals": 100,
        "hints.cache_reused": 50,
        "hints.cache_written": 100,
        "hints.probes_with_hint": 500,
        "hints.op.edit_import": 20,
        "hints.op.truncate": 20,
        "nontrivial": 600 if tier == "quick" else 6000,
        "ctor.loaded": 300,
        "ctor.created": 300,
        "ctor.saved": 300,
        "op.edit_root": 50,
        "op.edit_import": 50,
        "op.touch": 50,
        "op.older": 30,
        "op.truncate": 200,
        "op.real_crash": 2,
        "state.stale_recomputed": 50,
        "state.truncated_recomputed": 200,
        "state.foreign_loaded": 50,
        "roundtrip.tables": 300,
        "roundtrip.with_conflicts": 50,
        "roundtrip.with_dynamic": 20,
        "probes.compared": 3000,
        "fs.pgc_open_events": 500,
    }


def effective(kind, kw):
    if kind == "Parser":
        d = {"ps": True, "pse": True, "ld": True, "tables": "LALR"}
    elif kind == "GLRParser":
        d = {"ps": False, "pse": False, "ld": False, "tables": "LALR"}
    else:
        d = {"ps": False, "pse": False, "ld": True, "tables": "LALR"}
    if kw.get("prefer_shifts") is not None:
        d["ps"] = kw["prefer_shifts"]
    if kw.get("prefer_shifts_over_empty") is not None:
        d["pse"] = kw["prefer_shifts_over_empty"]
    if kw.get("lexical_disambiguation") is not None:
        d["ld"] = kw["lexical_disambiguation"]
    if kw.get("tables"):
        d["tables"] = kw["tables"]
    return d


class CacheMonitor:
    """M-fs: what each constructor did with the cache (wrappers on the real
    create_load_table / load_table / save_table / create_table) + audit hook
    counting open() of .pgc files."""

    def __init__(self):
        self.cur = None
        self.o = dict(clt=T.create_load_table, load=T.load_table, save=T.save_table, create=T.create_table)
        self.pgc_opens = 0
        mon = self

        def clt(grammar, *a, **k):
            rec = {"loaded": False, "created": False, "saved": False, "table": None, "layout": bool(k.get("in_layout"))}
            prev = mon.cur
            if not rec["layout"]:
                mon.cur = rec
            try:
                t = mon.o["clt"](grammar, *a, **k)
                rec["table"] = t
                if not rec["layout"]:
                    mon.last = rec
                return t
            finally:
                mon.cur = prev

        def load(*a, **k):
            if mon.cur is not None:
                mon.cur["loaded"] = True
            return mon.o["load"](*a, **k)

        def save(*a, **k):
            if mon.cur is not None:
                mon.cur["saved"] = True
            return mon.o["save"](*a, **k)

        def create(*a, **k):
            if mon.cur is not None:
                mon.cur["created"] = True
            return mon.o["create"](*a, **k)

        T.create_load_table = clt
        T.load_table = load
        T.save_table = save
        T.create_table = create
        self.last = None

        def audit(event, args):
            if event == "open" and args and isinstance(args[0], str) and (args[0].endswith(".pgc") or ".pgc." in args[0]):
                mon.pgc_opens += 1

        sys.addaudithook(audit)

    def uninstall(self):
        T.create_load_table = self.o["clt"]
        T.load_table = self.o["load"]
        T.save_table = self.o["save"]
        T.create_table = self.o["create"]


def ser(table):
    return json.dumps(TP.table_to_serializable(table), sort_keys=True)


def construct(mon, path, kind, kw):
    """Runs the real constructor on the grammar file; returns observation."""
    mon.last = None
    kwargs = dict(kw)
    if "tables" in kwargs:
        kwargs["tables"] = pgx.SLR if kwargs["tables"] == "SLR" else pgx.LALR
    obs = {"parser": None, "exc": None}
    try:
        with pgx.quiet():
            g = parglare.Grammar.from_file(path)
            if kind == "Parser":
                obs["parser"] = parglare.Parser(g, build_tree=True, **kwargs)
            elif kind == "GLRParser":
                obs["parser"] = parglare.GLRParser(g, **kwargs)
            else:
                g = parglare.Grammar.from_file(path, _no_check_recognizers=True)
                T.create_load_table(g, prefer_shifts=kwargs.get("prefer_shifts", False), prefer_shifts_over_empty=kwargs.get("prefer_shifts_over_empty", False), force_create=True)
    except (pgx.CaseTimeout, pgx.BudgetExceeded):
        raise
    except Exception as e:  # noqa: BLE001
        obs["exc"] = e
    rec = mon.last or {"loaded": False, "created": False, "saved": False, "table": None}
    obs.update(loaded=rec["loaded"], created=rec["created"], saved=rec["saved"], table=rec["table"])
    try:
        obs["ser"] = ser(rec["table"]) if rec["table"] is not None else None
    except Exception as e:  # noqa: BLE001
        # a table that cannot even be serialised (e.g. a stale table loaded for other grammar files)
        obs["ser"] = "unserialisable table: %s: %s" % (type(e).__name__, str(e)[:100])
    return obs


def probe(parser, kind, inputs):
    out = []
    if parser is None:
        return out
    for w in inputs:
        if kind == "Parser":
            k, v = pgx.outcome(parser.parse, w)
            if k == "ret":
                out.append(("ret", v.to_str()))
            elif k == "syntax":
                out.append(("syntax", v.location.start_position))
            else:
                out.append(("exc", type(v).__name__))
        else:
            o = glrobs.parse_glr(parser, w)
            if o.kind == "forest":
                if o.loop:
                    out.append(("forest", "loop"))
                else:
                    out.append(("forest", o.len, [o.forest[i].to_str() for i in range(min(o.len, 6))]))
            elif o.kind == "syntax":
                out.append(("syntax", o.err.location.start_position))
            else:
                out.append(("exc", type(o.exc).__name__))
    return out


class Dir:
    """One grammar directory with a logical clock for mtimes."""

    def __init__(self, ctx):
        self.path = tempfile.mkdtemp(prefix="pgv-c12-")
        self.clock = 1_000_000
        self.root = os.path.join(self.path, "root.pg")
        self.base = os.path.join(self.path, "base.pg")
        self.pgc = os.path.join(self.path, "root.pgc")
        self.writer = None  # effective options of the last writer of the .pgc
        self.texts = {}

    def tick(self):
        self.clock += 10
        return self.clock

    def write(self, which, text):
        p = self.root if which == "root" else self.base
        with open(p, "w") as f:
            f.write(text)
        t = self.tick()
        os.utime(p, (t, t))
        self.texts[which] = text

    def touch(self, which):
        p = self.root if which == "root" else self.base
        t = self.tick()
        os.utime(p, (t, t))

    def pgc_state(self):
        try:
            st = os.stat(self.pgc)
            with open(self.pgc, "rb") as f:
                return (st.st_mtime_ns, hashlib.sha256(f.read()).hexdigest())
        except FileNotFoundError:
            return None

    def stamp_pgc(self):
        if os.path.exists(self.pgc):
            t = self.tick()
            os.utime(self.pgc, (t, t))

    def content_key(self):
        return hashlib.sha256((self.texts["root"] + "\0" + self.texts["base"]).encode()).hexdigest()[:16]

    def remove(self):
        shutil.rmtree(self.path, ignore_errors=True)


class Oracle:
    """The same constructor in a fresh directory without any cache."""

    def __init__(self, mon):
        self.mon = mon
        self.cache = {}

    def get(self, d, kind, kw, inputs):
        key = (d.content_key(), kind, json.dumps(kw, sort_keys=True), tuple(inputs))
        if key in self.cache:
            return self.cache[key]
        if len(self.cache) > 3000:
            self.cache.clear()
        tmp = tempfile.mkdtemp(prefix="pgv-c12o-")
        try:
            for which in ("root", "base"):
                with open(os.path.join(tmp, which + ".pg"), "w") as f:
                    f.write(d.texts[which])
            obs = construct(self.mon, os.path.join(tmp, "root.pg"), kind, kw)
            res = {
                "ser": obs["ser"],
                "exc": type(obs["exc"]).__name__ if obs["exc"] is not None else None,
                "probes": probe(obs["parser"], kind, inputs),
            }
        finally:
            shutil.rmtree(tmp, ignore_errors=True)
        self.cache[key] = res
        return res


def run(ctx):
    mon = CacheMonitor()
    try:
        oracle = Oracle(mon)
        n = 0
        while ctx.more():
            n += 1
            if n % 3 == 0:
                roundtrips(ctx)
            elif n % 5 == 0:
                hint_history(ctx)
            else:
                history(ctx, mon, oracle)
        if ctx.mine(0) or ctx.mine(7) or ctx.tier == "thorough":
            real_crash(ctx, mon, oracle)
    finally:
        mon.uninstall()
    ctx.count("fs.pgc_open_events", mon.pgc_opens)


def history(ctx, mon, oracle):
    """Generate a random operation history, then execute it."""
    rng = ctx.rng
    ops = [("write", "base", rng.choice(BASES)), ("write", "root", rng.choice(ROOTS))]
    length = rng.randint(3, 6) if ctx.tier == "quick" else rng.randint(4, 8)
    same_opts = rng.random() < 0.4  # one configuration only: cache mechanics without KF-C12-1
    fixed = rng.choice(KINDS[:9])
    for step in range(length):
        r = rng.random()
        if step == 0 or r < 0.5:
            kind, kw = fixed if same_opts else rng.choice(KINDS)
            ops.append(("construct", kind, kw))
        elif r < 0.6:
            ops.append(("write", "root", rng.choice(ROOTS)))
        elif r < 0.7:
            ops.append(("write", "base", rng.choice(BASES)))
        elif r < 0.78:
            ops.append(("touch", rng.choice(["root", "base"])))
        elif r < 0.84:
            ops.append(("older",))
        else:
            kind, kw = fixed if same_opts else rng.choice(KINDS[:9])
            fr = sorted(set([0.0, 0.001, 0.5, 0.9999] + [round(rng.random(), 4) for _ in range(3 if ctx.tier == "quick" else 10)]))
            ops.append(("truncate", fr, kind, kw))
    inputs = rng.sample(list(cfg.all_strings(ALPH, 3)), 10) + ["n+n*n", "nn", ""]
    execute(ctx, mon, oracle, ops, inputs)


def execute(ctx, mon, oracle, ops, inputs):
    d = Dir(ctx)
    log = []
    try:
        for op in ops:
            if op[0] == "write":
                first = op[1] not in d.texts
                d.write(op[1], op[2])
                if not first:
                    ctx.count("op.edit_root" if op[1] == "root" else "op.edit_import")
            elif op[0] == "touch":
                d.touch(op[1])
                ctx.count("op.touch")
            elif op[0] == "older":
                if os.path.exists(d.pgc):
                    os.utime(d.pgc, (1, 1))
                    ctx.count("op.older")
            elif op[0] == "construct":
                log.append(list(op))
                if not do_construct(ctx, mon, oracle, d, op[1], op[2], inputs, ops, log):
                    return
                continue
            elif op[0] == "truncate":
                if os.path.exists(d.pgc):
                    with open(d.pgc, "rb") as f:
                        data = f.read()
                    for fr in op[1]:
                        k = min(len(data) - 1, int(fr * len(data)))
                        with open(d.pgc, "wb") as f:
                            f.write(data[:k])
                        d.stamp_pgc()
                        ctx.count("op.truncate")
                        log.append(["truncate .pgc to %d of %d bytes, then construct" % (k, len(data)), op[2], op[3]])
                        if not do_construct(ctx, mon, oracle, d, op[2], op[3], inputs, ops, log, truncated=True):
                            return
                continue
            log.append(list(op))
    finally:
        d.remove()


def do_construct(ctx, mon, oracle, d, kind, kw, inputs, ops, ops_log, truncated=False):
    before = d.pgc_state()
    pgc_mtime = os.stat(d.pgc).st_mtime if before else None
    stale = before is not None and any(os.stat(p).st_mtime > pgc_mtime for p in (d.root, d.base))
    eff = effective(kind, kw)
    case = {"ops": [list(o) for o in ops], "inputs": list(inputs), "executed": [str(x) for x in ops_log]}
    try:
        with pgx.watchdog(60):
            obs = construct(mon, d.root, kind, kw)
            want = oracle.get(d, kind, kw, inputs)
    except (pgx.CaseTimeout, pgx.BudgetExceeded):
        ctx.inconc("timeout in history %s" % [str(x) for x in ops_log[-3:]])
        return False
    after = d.pgc_state()
    if after != before:
        d.stamp_pgc()
        d.writer = eff
    key = (d.content_key(), "pgc" if before else "nopgc", "stale" if stale else "", "trunc" if truncated else "", kind, json.dumps(kw, sort_keys=True), json.dumps(d.writer, sort_keys=True) if obs["loaded"] else "")
    ctx.case(key, before is not None, sample={"history": [str(x) for x in ops_log[-5:]], "root": d.texts["root"], "base": d.texts["base"], "loaded": obs["loaded"], "created": obs["created"], "saved": obs["saved"]})
    for f in ("loaded", "created", "saved"):
        if obs[f]:
            ctx.count("ctor." + f)
    if stale and obs["created"]:
        ctx.count("state.stale_recomputed")
    if truncated and obs["created"]:
        ctx.count("state.truncated_recomputed")
    got_exc = type(obs["exc"]).__name__ if obs["exc"] is not None else None
    got_probes = probe(obs["parser"], kind, inputs)
    ctx.count("probes.compared", len(got_probes))
    same = obs["ser"] == want["ser"] and got_exc == want["exc"] and got_probes == want["probes"]
    if same:
        return True
    # not transparent -- which mechanism?
    known = None
    detail = "constructor outcome %s (oracle %s); table equal: %s; probes equal: %s; loaded=%s created=%s; last writer options %s, own options %s" % (
        got_exc,
        want["exc"],
        obs["ser"] == want["ser"],
        got_probes == want["probes"],
        obs["loaded"],
        obs["created"],
        before_writer(d, after, before),
        eff,
    )
    writer = d.writer if after == before else None  # the file we loaded is the one stamped by the last writer
    if obs["loaded"] and not obs["created"] and writer is not None and writer != eff and obs["ser"] is not None:
        # loaded table must be what the writer's options give for the *current* grammar files
        wkind, wkw = eff_to_ctor(writer)
        w2 = oracle.get(d, wkind, wkw, [])
        if w2["ser"] is not None and same_actions(w2["ser"], obs["ser"]):
            known = "KF-C12-1"
            ctx.count("state.foreign_loaded")
    if got_exc in ("JSONDecodeError",):
        sig = "undecodable-cache-raises"
    elif stale and obs["loaded"] and not obs["created"]:
        sig = "stale-cache-used"
    elif obs["ser"] != want["ser"]:
        sig = "table-differs-from-no-cache"
    else:
        sig = "behaviour-differs-from-no-cache"
    ctx.violation(sig, case, detail, known=known)
    return known is not None


# --- the error-hint cache (.pgec next to a .pge file) follows the same pattern ---------

HINT_ROOTS = [
    'import "base.pg";\nE: E "+" E {left, 1} | E "*" E {left, 2} | base.N | "(" E ")";',
    'import "base.pg";\nE: E "+" T | T;\nT: T "*" F | F;\nF: base.N | "(" E ")";',
    'import "base.pg";\nE: T "+" E | T;\nT: base.N "*" T | base.N | "(" E ")";',
    'import "base.pg" as b;\nE: E "+" E {right, 1} | E "*" E {left, 1} | b.N | "(" E ")";',
]
HINT_BASES = ['N: "n";', 'N: "n" | "m" "n";', 'N: M;\nM: "n" | "m";', 'N: x;\nterminals\nx: /n/;']
HINT_EXAMPLES = [("n + * n", True), ("(n + n", False), ("n + n)", True), ("n + n n", True), ("n +", False), ("* n", True)]
HINT_PROBES = ["n + * n", "(n + n", "n + n)", "n n", "n +", "* n", "n * + n", "((n)", "n + (", ")", "n * n n", "n + n", "(n)*n"]


def pge_text(rng, version):
    ex = rng.sample(HINT_EXAMPLES, rng.randint(2, len(HINT_EXAMPLES)))
    parts = []
    for i, (src, la) in enumerate(ex):
        parts.append("%s\n:::%s\nhint %d of version %d for %s\n" % (src, "+" if la else "", i, version, src))
    return "\n=====\n".join(parts)


def hint_probe(parser, kind):
    out = []
    for w in HINT_PROBES:
        try:
            with pgx.quiet():
                parser.parse(w)
            out.append((w, "accepted"))
        except parglare.SyntaxError as e:
            out.append((w, e.location.start_position, getattr(e, "hint", None)))
        except (pgx.CaseTimeout, pgx.BudgetExceeded):
            raise
        except Exception as e:  # noqa: BLE001
            out.append((w, "exc", type(e).__name__))
    return out


def hint_construct(path, kind, kw):
    kwargs = dict(kw)
    if "tables" in kwargs:
        kwargs["tables"] = pgx.SLR if kwargs["tables"] == "SLR" else pgx.LALR
    try:
        with pgx.quiet():
            g = parglare.Grammar.from_file(path)
            p = parglare.Parser(g, **kwargs) if kind == "Parser" else parglare.GLRParser(g, **kwargs)
        return p, None
    except (pgx.CaseTimeout, pgx.BudgetExceeded):
        raise
    except Exception as e:  # noqa: BLE001
        return None, e


def hint_history(ctx):
    """Histories over a directory that also holds error examples (root.pge): after every
    construction SyntaxError.hint of probe parses equals what the same constructor gives in
    a fresh copy of the directory without any cache.  One parser configuration per history
    (the configuration is not part of any cache key: KF-C12-1, judged on the table cache)."""
    rng = ctx.rng
    kind, kw = rng.choice([("Parser", {}), ("Parser", {}), ("GLRParser", {}), ("Parser", {"tables": "SLR"}), ("Parser", {"prefer_shifts": False, "prefer_shifts_over_empty": False})])
    d = Dir(ctx)
    pge = os.path.join(d.path, "root.pge")
    pgec = os.path.join(d.path, "root.pgec")
    version = [0]
    texts = {}

    def write_pge():
        version[0] += 1
        texts["pge"] = pge_text(rng, version[0])
        with open(pge, "w") as f:
            f.write(texts["pge"])
        t = d.tick()
        os.utime(pge, (t, t))

    log = []
    try:
        d.write("base", rng.choice(HINT_BASES))
        d.write("root", rng.choice(HINT_ROOTS))
        write_pge()
        for step in range(rng.randint(3, 7)):
            r = rng.random()
            op = "construct" if step == 0 or r < 0.45 else rng.choice(["edit_root", "edit_import", "edit_examples", "touch", "older", "truncate"])
            if op == "edit_root":
                d.write("root", rng.choice(HINT_ROOTS))
            elif op == "edit_import":
                d.write("base", rng.choice(HINT_BASES))
            elif op == "edit_examples":
                write_pge()
            elif op == "touch":
                d.touch(rng.choice(["root", "base"]))
            elif op == "older":
                if os.path.exists(pgec):
                    os.utime(pgec, (1, 1))
            elif op == "truncate":
                if os.path.exists(pgec):
                    data = open(pgec, "rb").read()
                    k = int(rng.choice([0.0, 0.3, 0.6, 0.95]) * len(data))
                    with open(pgec, "wb") as f:
                        f.write(data[:k])
                    t = d.tick()
                    os.utime(pgec, (t, t))
                    op = "truncate .pgec to %d of %d bytes" % (k, len(data))
            log.append(op)
            ctx.count("hints.op." + op.split(" ")[0])
            if not op.startswith("truncate") and op != "construct":
                continue
            # construct + probe, against a fresh directory
            had_cache = os.path.exists(pgec)
            before = (os.stat(pgec).st_mtime_ns, open(pgec, "rb").read()) if had_cache else None
            try:
                with pgx.watchdog(60):
                    p, exc = hint_construct(d.root, kind, kw)
                    got = ("ctor", type(exc).__name__) if exc is not None else hint_probe(p, kind)
                    tmp = tempfile.mkdtemp(prefix="pgv-c12h-")
                    try:
                        for which in ("root", "base"):
                            with open(os.path.join(tmp, which + ".pg"), "w") as f:
                                f.write(d.texts[which])
                        with open(os.path.join(tmp, "root.pge"), "w") as f:
                            f.write(texts["pge"])
                        p2, exc2 = hint_construct(os.path.join(tmp, "root.pg"), kind, kw)
                        want = ("ctor", type(exc2).__name__) if exc2 is not None else hint_probe(p2, kind)
                    finally:
                        shutil.rmtree(tmp, ignore_errors=True)
            except (pgx.CaseTimeout, pgx.BudgetExceeded):
                ctx.inconc("timeout in hint history %s" % log[-3:])
                return
            if os.path.exists(pgec):
                after = (os.stat(pgec).st_mtime_ns, open(pgec, "rb").read())
                if after != before:
                    t = d.tick()
                    os.utime(pgec, (t, t))
                    ctx.count("hints.cache_written")
                elif had_cache:
                    ctx.count("hints.cache_reused")
            if os.path.exists(d.pgc):
                d.stamp_pgc()
            nh = sum(1 for x in want if len(x) == 3 and x[1] != "exc" and x[2]) if isinstance(want, list) else 0
            ctx.count("hints.probes_with_hint", nh)
            ctx.case((d.content_key(), texts["pge"], kind, json.dumps(kw, sort_keys=True), tuple(log)), had_cache, sample={"history": list(log), "root": d.texts["root"], "base": d.texts["base"], "parser": kind, "options": kw})
            ctx.count("hints.constructions_compared")
            if got != want:
                diff = [(a, b) for a, b in zip(got, want) if a != b][:2] if isinstance(got, list) and isinstance(want, list) else [(got, want)]
                case = {"hints": True, "history": list(log), "root": d.texts["root"], "base": d.texts["base"], "pge": texts["pge"], "parser": kind, "options": kw}
                sig = "hint-cache-undecodable-raises" if isinstance(got, tuple) and got[0] == "ctor" and not (isinstance(want, tuple) and want[0] == "ctor") else "hints-differ-from-no-cache"
                ctx.violation(sig, case, "after %s: with the directory's caches %s, in a fresh directory %s" % (log[-4:], str(diff)[:300], ""))
                return
    finally:
        d.remove()


def before_writer(d, after, before):
    return d.writer


def eff_to_ctor(eff):
    """A constructor call that has exactly these effective options (finish flags
    depend on lexical_disambiguation, which only the parser constructors pass)."""
    return ("Parser", {"prefer_shifts": eff["ps"], "prefer_shifts_over_empty": eff["pse"], "lexical_disambiguation": eff["ld"], "tables": eff["tables"]})


def same_actions(a, b):
    return a == b


def real_crash(ctx, mon, oracle):
    """A real writer process is killed after k bytes have been written to the
    cache file; afterwards a fresh construction must behave as without cache."""
    rng = ctx.rng
    d = Dir(ctx)
    try:
        d.write("base", BASES[1])
        d.write("root", ROOTS[0])
        inputs = ["n+n*n", "nn", "n", ""]
        ks = [0, 7, 200, 1500] if ctx.tier == "quick" else [0, 1, 7, 64, 200, 700, 1500, 4000]
        for k in ks:
            for p in (d.pgc,):
                if os.path.exists(p):
                    os.remove(p)
            child = (
                "import builtins, os, sys\n"
                "sys.path.insert(0, %r)\n"
                "K=%d\n"
                "real_open=builtins.open\n"
                "class F:\n"
                "    def __init__(s,f): s.f=f; s.n=0\n"
                "    def write(s,data):\n"
                "        room=K-s.n\n"
                "        if len(data)>=room:\n"
                "            s.f.write(data[:room]); s.f.flush(); os._exit(9)\n"
                "        s.n+=len(data); return s.f.write(data)\n"
                "    def __enter__(s): return s\n"
                "    def __exit__(s,*a): s.f.close()\n"
                "    def __getattr__(s,a): return getattr(s.f,a)\n"
                "def op(path,mode='r',*a,**k):\n"
                "    f=real_open(path,mode,*a,**k)\n"
                "    if 'w' in mode and '.pgc' in str(path): return F(f)\n"
                "    return f\n"
                "builtins.open=op\n"
                "import io, contextlib\n"
                "from parglare import Grammar, Parser\n"
                "with contextlib.redirect_stdout(io.StringIO()):\n"
                "    Parser(Grammar.from_file(%r))\n"
            ) % (os.environ.get("PGV_REPO", "/repo"), k, d.root)
            r = subprocess.run([sys.executable, "-c", child], capture_output=True, timeout=120, env={"PYTHONDONTWRITEBYTECODE": "1", "PATH": os.environ.get("PATH", "")})
            ctx.count("op.real_crash")
            ctx.seen("real_crash.child_exit", str(r.returncode))
            left = sorted(os.listdir(d.path))
            ctx.seen("real_crash.files_left", ",".join(left))
            d.stamp_pgc()
            ops_log = ["writer process killed after %d bytes (exit %s); directory now %s" % (k, r.returncode, left)]
            if not do_construct(ctx, mon, oracle, d, "Parser", {}, inputs, [("real_crash", k)], ops_log, truncated=os.path.exists(d.pgc)):
                return
            if not do_construct(ctx, mon, oracle, d, "Parser", {}, inputs, [("real_crash", k)], ops_log):
                return
    finally:
        d.remove()


# --- round trips ---------------------------------------------------------------


def roundtrips(ctx):
    rng = ctx.rng
    g = cfg.rand_ok_grammar(rng, nnt=rng.choice([2, 3, 4]), terms=rng.choice(["ab", "abc"]), maxalts=3, maxlen=3, eps_weight=rng.choice([1, 2]))
    if g is None:
        return
    meta = {}
    if rng.random() < 0.4:
        for pi in range(len(g.prods)):
            if rng.random() < 0.3:
                meta[pi] = rng.choice(["dynamic", "left", "right, 5", "dynamic, 7"])
    text = g.text(prod_meta=meta)
    if rng.random() < 0.4:
        # dynamic marks on terminals (they mark states and conflicts too)
        lines = text.split("\n")
        if "terminals" in lines:
            k = lines.index("terminals")
            for i in range(k + 1, len(lines)):
                if lines[i].endswith(";") and "{" not in lines[i] and rng.random() < 0.4:
                    lines[i] = lines[i][:-1] + " {dynamic};"
                    ctx.count("roundtrip.dynamic_terminals")
            text = "\n".join(lines)
    tmp = tempfile.mkdtemp(prefix="pgv-c12r-")
    try:
        for itemset, ps, pse, ld in [(LR_1, False, False, None), (LR_0, True, True, True), (LR_1, True, False, False), (LR_0, False, True, None)]:
            case = {"grammar": text, "itemset": itemset, "ps": ps, "pse": pse, "ld": ld, "roundtrip": True}
            try:
                with pgx.watchdog(30), pgx.quiet():
                    pg = parglare.Grammar.from_string(text)
                    kw = {} if ld is None else {"lexical_disambiguation": ld}
                    t1 = T.create_table(pg, itemset, 1, ps, pse, **kw)
            except pgx.CaseTimeout:
                ctx.inconc("roundtrip construction timeout")
                return
            except Exception as e:  # noqa: BLE001
                ctx.count("roundtrip.construction_failed:" + type(e).__name__)
                return
            s1 = TP.table_to_serializable(t1)
            j1 = json.dumps(s1, sort_keys=True)
            f1 = os.path.join(tmp, "t1.pgc")
            f2 = os.path.join(tmp, "t2.pgc")
            TP.save_table(f1, t1)
            pg2 = parglare.Grammar.from_string(text)
            t2 = TP.load_table(f1, pg2)
            TP.save_table(f2, t2)
            b1 = open(f1, "rb").read()
            b2 = open(f2, "rb").read()
            ctx.count("roundtrip.tables")
            ctx.case((text, itemset, ps, pse, ld), len(t1.states) >= 4, sample={"grammar": text, "states": len(t1.states), "bytes": len(b1)})
            if t1.sr_conflicts or t1.rr_conflicts:
                ctx.count("roundtrip.with_conflicts")
            if any(s.dynamic for s in t1.states):
                ctx.count("roundtrip.with_dynamic")
            if b1 != j1.encode():
                ctx.violation("saved-bytes-differ-from-serialisable", case, "file content is not json.dumps(table_to_serializable(table), sort_keys=True)")
                return
            if b1 != b2:
                ctx.violation("resave-not-byte-identical", case, "saving the loaded table gives different bytes")
                return
            j2 = json.dumps(TP.table_to_serializable(t2), sort_keys=True)
            if j1 != j2:
                ctx.violation("roundtrip-table-differs", case, "table_to_serializable differs after save/load")
                return

            def conf(t):
                return (
                    sorted((c.state.state_id, c.term.name, tuple(sorted(p.prod_id for p in c.productions)), bool(c.dynamic)) for c in t.sr_conflicts),
                    sorted((c.state.state_id, c.term.name, tuple(sorted(p.prod_id for p in c.productions)), bool(c.dynamic)) for c in t.rr_conflicts),
                    [sorted(x.name for x in s.dynamic) for s in t.states],
                    [list(s.finish_flags) for s in t.states],
                    [[(k.name, [(a.action, a.state.state_id if a.state else None, a.prod.prod_id if a.prod else None) for a in v]) for k, v in s.actions.items()] for s in t.states],
                    [[(k.name, v.state_id) for k, v in s.gotos.items()] for s in t.states],
                )

            if conf(t1) != conf(t2):
                ctx.violation("roundtrip-conflicts-or-marks-differ", case, "conflicts / dynamic marks / finish flags / actions / gotos differ after save/load")
                return
    finally:
        shutil.rmtree(tmp, ignore_errors=True)


def replay(case, ctx):
    if case.get("roundtrip") or not case.get("ops") or case["ops"][0][0] == "real_crash":
        return
    mon = CacheMonitor()
    try:
        oracle = Oracle(mon)
        ops = [tuple(o) for o in case["ops"]]
        execute(ctx, mon, oracle, ops, case["inputs"])
    finally:
        mon.uninstall()
