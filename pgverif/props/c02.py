"""C02 - the GLR forest contains every derivation of the input."""

import time

from pgverif import cfg, findings, glrobs, pgx
from pgverif.mon.gss import GssMonitor
from pgverif.props import glrwork

ID = "C02"
LEVEL = "exploration"
RULE = (
    "cases = (acyclic grammar, LALR|SLR, sentence): corpus + random acyclic grammars weighted towards nullable symbols, hidden "
    "left/right recursion and right-nulled rules (25% over an overlapping vocabulary) x all sentences up to the length bound "
    "(no layout, so spans are exact); oracle = every packed alternative (symbol,span)->(production, child spans) of the reference "
    "chart must be reachable in the forest, and tree sets are compared when small; the GSS closure invariant is evaluated before "
    "every shift. Non-trivial = sentence with >=2 derivations or grammar with a nullable nonterminal; distinct = (grammar, tables, input)."
)
ASSUMPTIONS = [
    "pgverif/cfg.py Chart enumerates all derivations (cross-checked against parglare on grammars where no GLR finding applies)",
    "known finding KF-C02-1 is attributed only through the GSS closure monitor; without it every loss is reported",
]


def plan(tier):
    return {"nshards": 16, "budget_s": 40 if tier == "quick" else 420}


def required(tier):
    return {
        "nontrivial": 1500 if tier == "quick" else 15000,
        "gss.closure_checks": 5000,
        "gss.closure_paths": 20000,
        "gss.limited": 100,
        "gss.eps_reduce": 500,
        "gss.merge": 200,
        "packed_alternatives_compared": 20000,
        "tree_sets_compared": 1000,
        "links_compared": 20000,
        "grammar.tag.hidden-leftrec": 3,
        "grammar.tag.right-nulled": 3,
        "grammar.overlap": 3,
        "lex.tree_sets_compared": 200,
        "long_inputs.ge12": 60,
        "parses.from_start_position": 1000,
    }


def run(ctx):
    mon = GssMonitor(check_closure=True)
    mon.install()
    maxlen = 5 if ctx.tier == "quick" else 6
    try:
        for i, (name, g) in enumerate(cfg.LEX_CORPUS):
            if ctx.mine(i) and not g.cyclic():
                lex_grammar(ctx, mon, name, g)
        for name, g, alphabet in glrwork.grammar_stream(ctx, acyclic=True, tiny=(ctx.tier == "thorough"), eps_weights=(1, 2, 3, 3)):
            if not ctx.more():
                break
            one_grammar(ctx, mon, name, g, alphabet, maxlen)
    finally:
        mon.uninstall()
    for k, v in mon.totals.items():
        ctx.count("gss." + k, v)


def lex_grammar(ctx, mon, name, g):
    """Tokens of different lengths, some spanning layout: complete tree sets (leaf spans are raw positions)."""
    text = g.text()
    ctx.count("grammar.lex_corpus")
    for tables in ("LALR", "SLR"):
        pg = pgx.grammar(text)
        parser = pgx.glr(pg, tables=pgx.LALR if tables == "LALR" else pgx.SLR)
        pkeys = pgx.prod_keys(pg)
        for w in cfg.all_strings(cfg.LEX_ALPHABET, 6 if ctx.tier == "quick" else 7):
            chart = cfg.Chart(g, w)
            if not chart.is_sentence():
                continue
            refcount = chart.count()
            if refcount == cfg.INF or refcount > 300:
                continue
            case = {"grammar": text, "g": g.to_json(), "tables": tables, "input": w, "lex": True}
            try:
                with pgx.watchdog(30):
                    o = glrobs.parse_glr(parser, w)
            except (pgx.CaseTimeout, pgx.BudgetExceeded):
                ctx.inconc("lex timeout")
                continue
            ctx.case((text, tables, w), refcount >= 2, sample={"grammar": text, "tables": tables, "input": w, "derivations": str(refcount)})
            if o.kind != "forest" or o.loop:
                ctx.violation("sentence-rejected", case, "%s for a sentence with %s derivations" % (o.kind, refcount), known=findings.lost_derivations_known(g, mon) if o.kind == "syntax" else None)
                continue
            ref_forms = set(pgx.ref_tree_form(t, g) for t in chart.trees())
            got_forms, _ = glrobs.forest_forms(o.forest, pkeys, 3000)
            ctx.count("tree_sets_compared")
            ctx.count("lex.tree_sets_compared")
            lost = ref_forms - set(got_forms)
            if lost:
                ctx.violation("tree-missing", case, "%d of %d derivation trees cannot be obtained from the forest, e.g. %s" % (len(lost), len(ref_forms), str(sorted(lost, key=str)[0])[:300]), known=findings.lost_derivations_known(g, mon))


def one_grammar(ctx, mon, name, g, alphabet, maxlen):
    text = g.text(inline=ctx.rng.random() < 0.3)
    for t in g.tags():
        ctx.count("grammar.tag." + t)
    if glrwork.has_overlap(g):
        ctx.count("grammar.overlap")
    if len(alphabet) >= 3 and maxlen > 4:
        maxlen = 4
    for tables in ("LALR", "SLR"):
        case0 = {"grammar": text, "g": g.to_json(), "tables": tables}
        try:
            with pgx.watchdog(20):
                pg = pgx.grammar(text)
                parser = pgx.glr(pg, tables=pgx.LALR if tables == "LALR" else pgx.SLR)
        except pgx.CaseTimeout:
            ctx.inconc("construction timeout: %r" % text)
            continue
        except Exception as e:  # noqa: BLE001
            ctx.count("construction_failed")
            continue
        pkeys = pgx.prod_keys(pg)
        for w in glrwork.inputs_for(g, alphabet, maxlen, ctx.rng, extra_long=3):
            check_input(ctx, mon, g, pg, parser, pkeys, dict(case0, input=w), w)
        # long sentences: links whose roots lie in many frontiers (two-digit ordinals)
        mon.reduce_budget = 3000000
        try:
            for w in glrwork.long_inputs(g, alphabet, ctx.rng, targets=(12, 16, 22)):
                ctx.count("long_inputs")
                if len(w) >= 12:
                    ctx.count("long_inputs.ge12")
                t0 = time.time()
                check_input(ctx, mon, g, pg, parser, pkeys, dict(case0, input=w), w, long=True)
                if mon.c["reduce"] > 30000 or time.time() - t0 > 2 or not ctx.more():
                    ctx.count("long_inputs.growth_stopped")
                    break
        finally:
            mon.reduce_budget = 400000
        if not ctx.more():
            break


def unshift(obj, d):
    """Positions of a parse started at position d, brought back to those of a parse from 0."""
    if d == 0:
        return obj
    if type(obj) is int:
        return obj - d
    if isinstance(obj, tuple):
        return tuple(unshift(x, d) for x in obj)
    if isinstance(obj, (set, frozenset)):
        return type(obj)(unshift(x, d) for x in obj)
    if isinstance(obj, list):
        return [unshift(x, d) for x in obj]
    return obj


def check_input(ctx, mon, g, pg, parser, pkeys, case, inp, long=False, offset=0):
    chart = cfg.Chart(g, inp, skip=cfg.skip_none)
    if not chart.is_sentence():
        return
    refcount = chart.count()
    if offset == 0 and not long and ctx.rng.random() < 0.12:
        # the same sentence parsed from a later start position of a longer text: same forest, shifted
        off = ctx.rng.choice([1, 1, 2, 3])
        check_input(ctx, mon, g, pg, parser, pkeys, dict(case, offset=off), inp, offset=off)
    key = (case["grammar"], case["tables"], inp, offset)
    if offset:
        ctx.count("parses.from_start_position")
    try:
        with pgx.watchdog(30):
            o = glrobs.parse_glr(parser, "#" * offset + inp, **({"position": offset} if offset else {}))
    except pgx.CaseTimeout:
        ctx.case(key, False)
        ctx.inconc("parse timeout: %r on %r" % (case["grammar"], inp))
        return
    except pgx.BudgetExceeded as e:
        ctx.case(key, True)
        if long:
            ctx.count("long_inputs.budget_not_judged")
            return
        ctx.violation("glr-diverges", case, "GLR parse exceeded the logical reduce budget: %s" % e)
        return
    nontrivial = refcount >= 2 or bool(g.nullable())
    ctx.case(key, nontrivial, sample={"grammar": case["grammar"], "tables": case["tables"], "input": inp, "derivations": str(refcount)})
    if o.kind != "forest":
        known = findings.lost_derivations_known(g, mon) if o.kind == "syntax" else None
        ctx.violation("sentence-rejected", case, "%s instead of a forest for a sentence with %s derivations; closure monitor: %s" % (o.kind, refcount, mon.closure_missing[:3]), known=known)
        return
    if mon.closure_missing:
        if any(not m["cyclic"] for m in mon.closure_missing):
            ctx.count("closure_violation_noncyclic_parses")
        else:
            ctx.count("closure_violation_cyclic_parses")
    ref_packed = chart.packed()
    got_packed, nlinks = glrobs.forest_packed(o.forest, pkeys)
    got_packed = unshift(got_packed, offset)
    ref_named = set((k, g.prods[pi], spans) for (k, pi, spans) in ref_packed)
    ctx.count("packed_alternatives_compared", len(ref_named))
    missing = ref_named - got_packed
    if missing:
        known = findings.lost_derivations_known(g, mon)
        ctx.violation(
            "packed-alternative-missing",
            case,
            "%d of %d packed alternatives of the complete SPPF are missing, e.g. %s; forest has %s trees, reference %s; closure monitor missing=%s"
            % (len(missing), len(ref_named), sorted(missing, key=str)[:2], o.len, refcount, mon.closure_missing[:3]),
            known=known,
        )
        return
    # every reachable link must hold *all* alternatives of its (symbol, span): the union over
    # links can be complete while one link lacks an alternative, and then trees are missing
    ref_by_key = {}
    for (k, pk, spans) in ref_named:
        ref_by_key.setdefault(k, set()).add((pk, spans))
    root_key_end = o.forest.result.end_position
    for key, alts in glrobs.forest_links(o.forest, pkeys):
        key, alts = unshift(key, offset), unshift(alts, offset)
        ctx.count("links_compared")
        lack = ref_by_key.get(key, set()) - alts
        if lack:
            known = findings.lost_derivations_known(g, mon)
            ctx.violation(
                "link-incomplete",
                case,
                "the link for %s holds %d of the %d alternatives of that symbol and span, e.g. lacks %s; forest has %s trees, reference %s; closure monitor missing=%s"
                % (key, len(alts), len(ref_by_key.get(key, set())), sorted(lack, key=str)[0], o.len, refcount, mon.closure_missing[:2]),
                known=known,
            )
            return
    if refcount <= 300 and not o.loop and o.len is not None and o.len <= 3000:
        ref_forms = set(pgx.ref_tree_form(t, g) for t in chart.trees())
        got_forms, complete = glrobs.forest_forms(o.forest, pkeys, 3000)
        got_forms = unshift(got_forms, offset)
        ctx.count("tree_sets_compared")
        lost = ref_forms - set(got_forms)
        if lost:
            known = findings.lost_derivations_known(g, mon)
            ctx.violation("tree-missing", case, "%d of %d derivation trees cannot be obtained from the forest, e.g. %s" % (len(lost), len(ref_forms), str(sorted(lost, key=str)[0])[:300]), known=known)
            return
    ctx.count("complete_forests")


def replay(case, ctx):
    g = cfg.G.from_json(case["g"])
    mon = GssMonitor(check_closure=True)
    mon.install()
    try:
        pg = pgx.grammar(case["grammar"])
        parser = pgx.glr(pg, tables=pgx.LALR if case["tables"] == "LALR" else pgx.SLR)
        if case.get("lex"):
            chart = cfg.Chart(g, case["input"])
            o = glrobs.parse_glr(parser, case["input"])
            if o.kind != "forest":
                ctx.violation("sentence-rejected", case, o.kind)
            else:
                ref_forms = set(pgx.ref_tree_form(t, g) for t in chart.trees())
                got_forms, _ = glrobs.forest_forms(o.forest, pgx.prod_keys(pg), 3000)
                if ref_forms - set(got_forms):
                    ctx.violation("tree-missing", case, "%d trees missing" % len(ref_forms - set(got_forms)))
            return
        long = len(case["input"]) >= 8
        if long:
            mon.reduce_budget = 3000000
        check_input(ctx, mon, g, pg, parser, pgx.prod_keys(pg), case, case["input"], long=long, offset=case.get("offset", 0))
    finally:
        mon.uninstall()
