"""C11 - error recovery terminates, reports disjoint spans and parses the rest."""

import parglare
import parglare.glr as GL
from parglare.parser import Token

import collections

from pgverif import cfg, glrobs, pgx
from pgverif.mon.gss import GssMonitor
from pgverif.mon.lr import Diverged, LRMonitor
from pgverif.props import glrwork
from pgverif.props.c01 import leaves_read_input  # noqa: F401
from pgverif.props.c08 import COMMENT_FILLERS, COMMENT_LAYOUT, COMMENT_TERMS

ID = "C11"
LEVEL = "exploration"
RULE = (
    "cases = (grammar, parser LR|GLR, strategy default|skip|inject, input): corpus + random grammars; inputs = corruptions of "
    "sentences (junk insertion, deletion, substitution, duplication) and arbitrary strings over alphabet + junk characters, with "
    "layout; termination is decided logically (LR configuration repetition / reductions-without-shift bound, recovery must advance "
    "the position or be followed by a shift, GLR reduce and recovery budgets); errors: in-bounds spans, start <= end, ordered, "
    "pairwise disjoint; default strategy: every tree is a derivation whose leaves are input tokens in input order, LR: every "
    "non-layout character is in exactly one leaf or exactly one span; inputs the same parser accepts without recovery give no error "
    "and the same result. Non-trivial = input on which at least one recovery ran; distinct = (grammar, parser, strategy, input)."
)
ASSUMPTIONS = [
    "injecting strategy is bounded by the harness (at most 3 injections per parse) so that non-termination is never the strategy's own fault",
    "KF-C11-1 (endless reductions on tables with resolved conflicts) is attributed by the LR monitor signature only",
]

JUNK = "z#"


def plan(tier):
    return {"nshards": 16, "budget_s": 40 if tier == "quick" else 420}


def required(tier):
    return {
        "config.consume_input_off": 3000,
        "inputs.long_multiply_corrupted": 1000,
        "grammars.lex_corpus": 6,
        "errors.multiple": 2000,
        "raised.compared_with_errors_seen_before": 500,
        "glr.hot_inputs_varied": 30,
        "glr.recovery_event.second_error_before_any_shift_after_partial_kill": 100,
        "nontrivial": 3000 if tier == "quick" else 30000,
        "lr.recoveries": 5000,
        "glr.recoveries": 5000,
        "strategy.default": 5000,
        "strategy.skip": 1000,
        "strategy.inject": 1000,
        "recovered.with_result": 3000,
        "recovered.raised": 1000,
        "errors.spans_checked": 5000,
        "coverage_checked": 1000,
        "sentence.same_as_without_recovery": 2000,
        "trees_checked": 3000,
        "errors.multiple": 300,
        "grammars.comment_layout": 50,
        "injected_leaves": 300,
    }


class GlrRecoveryMonitor:
    """Counts GLR recoveries per parse; bounded progress."""

    def __init__(self):
        self.orig = GL.GLRParser._do_error_recovery
        self.count = 0
        self.total = 0
        self.limit = None
        mon = self

        self.orig_shifts = GL.GLRParser._do_shifts
        self.ev = collections.Counter()
        self.shifted = True
        self.hot = False
        self.partial = False

        def rec(self):
            mon.count += 1
            mon.total += 1
            if mon.limit is not None and mon.count > mon.limit:
                raise pgx.BudgetExceeded("GLR error recovery entered %d times on an input of length %d" % (mon.count, len(self._last_shifted_heads[0].input_str) if self._last_shifted_heads else -1))
            # which situations of the mechanism are reached (coverage, and selection of inputs worth varying)
            nheads = len(self._last_shifted_heads)
            if nheads >= 2:
                mon.ev["recovery_over_several_heads"] += 1
            if mon.count > 1 and not mon.shifted:
                mon.ev["second_error_before_any_shift"] += 1
                if mon.partial:
                    mon.ev["second_error_before_any_shift_after_partial_kill"] += 1
                    mon.hot = True
            mon.partial = False
            mon.shifted = False
            r = mon.orig(self)
            alive = len(self._active_heads)
            if nheads >= 2 and 0 < alive < nheads:
                mon.ev["recovery_kills_some_heads_only"] += 1
                mon.partial = True
            return r

        def shifts(self):
            r = mon.orig_shifts(self)
            if self._active_heads:
                mon.shifted = True
            return r

        GL.GLRParser._do_error_recovery = rec
        GL.GLRParser._do_shifts = shifts

    def uninstall(self):
        GL.GLRParser._do_error_recovery = self.orig
        GL.GLRParser._do_shifts = self.orig_shifts


SEEN = []  # start positions of the errors handed to the recording strategy during the current parse


def strategies(pg):
    state = {"inj": 0}

    def recording(head, error, default):
        # the default strategy, observed: which errors were there before the parse ended
        SEEN.append(error.location.start_position)
        return default(head)

    def skip(head, error, default):
        head.position += 1
        return default(head)

    def inject(head, error, default):
        if state["inj"] >= 3:
            return False
        exp = [s for s in head.state.actions if s.name not in ("STOP", "EMPTY")]
        if not exp:
            return False
        state["inj"] += 1
        sym = sorted(exp, key=lambda s: s.name)[0]
        head.token_ahead = Token(sym, sym.name, head.position, length=0)
        return True

    return {"default": True, "skip": skip, "inject": inject, "recording": recording}, state


def corruptions(rng, w, alphabet):
    out = []
    for _ in range(3):
        s = list(w)
        k = rng.randrange(4)
        i = rng.randrange(len(s) + 1)
        if k == 0:
            s.insert(i, rng.choice(JUNK))
        elif k == 1 and s:
            del s[min(i, len(s) - 1)]
        elif k == 2 and s:
            s[min(i, len(s) - 1)] = rng.choice(JUNK + alphabet)
        else:
            s.insert(i, rng.choice(alphabet))
        out.append("".join(s))
    return out


def run(ctx):
    lmon = LRMonitor()
    lmon.install()
    gmon = GssMonitor(check_closure=False, reduce_budget=200000)
    gmon.install()
    rmon = GlrRecoveryMonitor()
    maxlen = 4 if ctx.tier == "quick" else 5
    try:
        # vocabularies whose tokens have different lengths and may begin with / span blanks: a
        # recovery can resume on a token that starts with a layout character
        for i, (name, g) in enumerate(cfg.LEX_CORPUS):
            if ctx.mine(i) or ctx.mine(i + 7):
                ctx.count("grammars.lex_corpus")
                one_grammar(ctx, lmon, rmon, g, cfg.LEX_ALPHABET, 5)
        for name, g, alphabet in glrwork.grammar_stream(ctx, overlap_share=0.0):
            if not ctx.more():
                break
            one_grammar(ctx, lmon, rmon, g, alphabet, maxlen)
    finally:
        lmon.uninstall()
        gmon.uninstall()
        rmon.uninstall()
    ctx.count("lr.recoveries", lmon.c["recoveries"])
    ctx.count("glr.recoveries", rmon.total)
    for k, v in rmon.ev.items():
        ctx.count("glr.recovery_event." + k, v)


def one_grammar(ctx, lmon, rmon, g, alphabet, maxlen):
    rng = ctx.rng
    comments = rng.random() < 0.25
    if comments:
        # LAYOUT rule whose items span several tokens (nested comments); corruption also hits the comments
        text = g.text(extra_rules=COMMENT_LAYOUT.strip(), extra_terms=COMMENT_TERMS)
        ctx.count("grammars.comment_layout")
    else:
        text = g.text(inline=rng.random() < 0.3)
    if len(alphabet) >= 3 and maxlen > 3:
        maxlen = 3
    sentences = [w for w in cfg.all_strings(alphabet, maxlen) if cfg.Chart(g, w, skip=cfg.skip_none).is_sentence()]
    inputs = set()
    for w in sentences:
        inputs.add(w)
        for c in corruptions(rng, w, alphabet):
            inputs.add(c)
    for _ in range(10):
        inputs.add("".join(rng.choice(alphabet + JUNK) for _ in range(rng.randint(0, maxlen + 2))))
    # longer sentences with several corruptions: more than one recovery in one parse
    if not glrwork.has_overlap(g):
        for target in (6, 8, 10, 12):
            sent = cfg.rand_sentence(g, rng, target)
            if not sent or len(sent) < 5 or len(sent) > 30:
                continue
            w = "".join(sent)
            for _ in range(4):
                c = w
                for _ in range(rng.randint(1, 3)):
                    c = rng.choice(corruptions(rng, c, alphabet))
                inputs.add(c)
                ctx.count("inputs.long_multiply_corrupted")
    inputs = sorted(inputs)
    if len(inputs) > 90:
        long_ones = [x for x in inputs if len(x) >= 6]
        inputs = rng.sample(inputs, 70) + rng.sample(long_ones, min(20, len(long_ones)))
    if comments:
        def spoil(t):
            # corrupt inside / around comments: lose a terminator, inject junk
            k = rng.randrange(4)
            if k == 0:
                return t.replace("*/", "", 1)
            if k == 1:
                return t.replace("/*", "/* z */ # /*", 1)
            if k == 2:
                return t.replace("*/", "*/ z", 1)
            return t

        inputs = [spoil(glrwork.relayout(w, rng, COMMENT_FILLERS)) if rng.random() < 0.7 else w for w in inputs]
    else:
        inputs = [glrwork.relayout(w, rng) if rng.random() < 0.3 else w for w in inputs]
    case0 = {"grammar": text, "g": g.to_json(), "comments": comments}
    for kind in ("LR", "GLR"):
        for sname in ("default", "skip", "inject", "recording"):
            if sname != "default" and rng.random() < 0.5:
                continue
            # a fifth of the parsers need not consume the whole input (the end-of-input pseudo
            # token is then a lookahead in mid-input, also while recovering)
            prefix_mode = rng.random() < 0.2
            pkw = {"consume_input": False} if prefix_mode else {}
            try:
                with pgx.watchdog(20):
                    pg = pgx.grammar(text)
                    strat, sstate = strategies(pg)
                    if kind == "LR":
                        parser = pgx.lr(pg, build_tree=True, error_recovery=strat[sname], **pkw)
                        plain = pgx.lr(pgx.grammar(text), build_tree=True, **pkw)
                    else:
                        parser = pgx.glr(pg, error_recovery=strat[sname], **pkw)
                        plain = pgx.glr(pgx.grammar(text), **pkw)
            except Exception as e:  # noqa: BLE001
                ctx.count("construction_failed:" + type(e).__name__)
                continue
            det = kind == "LR" and all(len(a) == 1 for s in parser.table.states for a in s.actions.values())
            pkeys = pgx.prod_keys(pg)
            for inp in inputs:
                sstate["inj"] = 0
                check(ctx, lmon, rmon, g, pg, pkeys, parser, plain, kind, sname, det, dict(case0, parser=kind, strategy=sname, input=inp, prefix_mode=prefix_mode), inp)
                if kind == "GLR" and rmon.hot:
                    # monitor-guided: this parse erred again before shifting anything after a recovery
                    # that killed only some heads; explore its neighbourhood (more input behind it)
                    ctx.count("glr.hot_inputs_varied")
                    for _ in range(14):
                        tail = "".join(rng.choice(alphabet + alphabet + JUNK) for _ in range(rng.randint(1, 4)))
                        k = rng.randrange(len(inp) + 1)
                        inp2 = inp + tail if rng.random() < 0.6 else inp[:k] + tail + inp[k:]
                        sstate["inj"] = 0
                        check(ctx, lmon, rmon, g, pg, pkeys, parser, plain, kind, sname, det, dict(case0, parser=kind, strategy=sname, input=inp2, prefix_mode=prefix_mode), inp2)


def check(ctx, lmon, rmon, g, pg, pkeys, parser, plain, kind, sname, det, case, inp):
    key = (case["grammar"], kind, sname, inp, case.get("prefix_mode", False))
    if case.get("prefix_mode"):
        ctx.count("config.consume_input_off")
    rec_before = lmon.c["recoveries"] + rmon.total
    del SEEN[:]
    rmon.count = 0
    rmon.shifted = True
    rmon.hot = False
    rmon.partial = False
    rmon.limit = 10 * (len(inp) + 2)
    lmon.check_stall = sname != "inject"
    try:
        with pgx.watchdog(30):
            if kind == "LR":
                okind, val = pgx.outcome(parser.parse, inp)
            else:
                o = glrobs.parse_glr(parser, inp)
                okind, val = ("ret", o.forest) if o.kind == "forest" else (o.kind, o.err if o.kind == "syntax" else o.exc)
    except pgx.CaseTimeout:
        ctx.inconc("timeout %r %r" % (case["grammar"], inp))
        return
    except Diverged as ex:
        ctx.case(key, True)
        known = None
        if kind == "LR" and not det and (g.nullable() or g.cyclic()) and "recovery stalled" not in str(ex):
            known = "KF-C11-1"
        ctx.violation("does-not-terminate", case, "%s parser with error recovery does not terminate: %s" % (kind, ex), known=known)
        return
    except pgx.BudgetExceeded as ex:
        ctx.case(key, True)
        ctx.violation("does-not-terminate", case, "%s parser with error recovery exceeded a logical budget: %s" % (kind, ex))
        return
    finally:
        rmon.limit = None
    recovered = (lmon.c["recoveries"] + rmon.total) > rec_before
    ctx.case(key, recovered, sample={"grammar": case["grammar"], "parser": kind, "strategy": sname, "input": inp, "outcome": okind})
    ctx.count("strategy." + sname)
    if okind == "exc":
        if isinstance(val, parglare.DisambiguationError):
            ctx.count("disambiguation_error")
            return
        ctx.violation("unexpected-exception:" + type(val).__name__, case, "%s: %s" % (type(val).__name__, str(val)[:200]))
        return
    if okind == "syntax":
        ctx.count("recovered.raised" if recovered else "raised_without_recovery")
        # "... or raises the last SyntaxError": the error that ends the parse is never an earlier
        # one than the errors the (recording) strategy was handed before
        if sname == "recording" and SEEN:
            ctx.count("raised.compared_with_errors_seen_before")
            sp = val.location.start_position
            if isinstance(sp, int) and any(isinstance(x, int) and x > sp for x in SEEN):
                ctx.violation("raised-error-is-not-the-last-one", case, "parse raised the error at %s, the strategy had been handed errors at %s before" % (sp, list(SEEN)))
        return
    errors = list(parser.errors)
    if recovered:
        ctx.count("recovered.with_result")
    # --- spans ---------------------------------------------------------------
    n = len(inp)
    prev_end = 0
    spans = []
    for e in errors:
        s, en = e.location.start_position, e.location.end_position
        ctx.count("errors.spans_checked")
        if not (type(s) is int and type(en) is int and 0 <= s <= en <= n):
            ctx.violation("error-span-out-of-bounds", case, "error span %r-%r, input length %d" % (s, en, n))
            return
        if s < prev_end:
            ctx.violation("error-spans-overlap-or-unordered", case, "error spans %s" % [(x.location.start_position, x.location.end_position) for x in errors])
            return
        prev_end = max(prev_end, en)
        spans.append((s, en))
    if len(errors) > 1:
        ctx.count("errors.multiple")
    # --- same as without recovery when the plain parser accepts -------------
    if kind == "LR":
        pk, pv = pgx.outcome(plain.parse, inp)
        if pk == "syntax" and not errors:
            ctx.violation("result-without-error-on-rejected-input", case, "the same parser without recovery raises SyntaxError at %s but with recovery a result came back and no error was recorded" % pv.location.start_position)
            return
        if pk == "ret":
            ctx.count("sentence.same_as_without_recovery")
            if errors:
                ctx.violation("error-recorded-on-accepted-input", case, "the same parser without recovery accepts the input but %d errors were recorded" % len(errors))
                return
            if pgx.tree_form(pv, pkeys) != pgx.tree_form(val, pkeys):
                ctx.violation("result-differs-from-no-recovery", case, "tree with error_recovery differs from the tree without")
                return
    else:
        po = glrobs.parse_glr(plain, inp)
        if po.kind == "syntax" and not errors:
            ctx.violation("result-without-error-on-rejected-input", case, "GLR without recovery raises SyntaxError at %s but with recovery a forest came back and no error was recorded" % po.err.location.start_position)
            return
        if po.kind == "forest":
            ctx.count("sentence.same_as_without_recovery")
            if errors:
                ctx.violation("error-recorded-on-accepted-input", case, "GLR without recovery accepts the input but %d errors were recorded" % len(errors))
                return
            if not po.loop and po.len <= 50:
                a = sorted(str(pgx.tree_form(t, pkeys)) for t in po.forest)
                b = sorted(str(pgx.tree_form(t, pkeys)) for t in val)
                if a != b:
                    ctx.violation("result-differs-from-no-recovery", case, "forest with error_recovery differs from the forest without")
                    return
    injected_ok = sname == "inject"
    # --- trees are derivations over input tokens (injected tokens are zero-length leaves) -----
    if kind == "LR":
        trees = [val]
    else:
        try:
            ln = len(val)
        except Exception:  # noqa: BLE001
            return
        trees = [val[i] for i in range(min(ln, 10))]
    for t in trees:
        ctx.count("trees_checked")
        perrs = pgx.check_derivation_tree(t, pg, pkeys, g.start)
        if perrs:
            ctx.violation("tree-not-a-derivation", case, str(perrs[:3]))
            return
        leaves = pgx.tree_leaves(t)
        pos = 0
        for l in leaves:
            s, en = l.start_position, l.end_position
            if injected_ok and type(s) is int and s == en and pos <= s <= n:
                # a token injected by the strategy: consumes nothing
                ctx.count("injected_leaves")
                continue
            if not (type(s) is int and type(en) is int and pos <= s < en <= n and l.value == inp[s:en]):
                ctx.violation("leaf-is-not-an-input-token", case, "leaf %s[%s->%s] value %r (previous leaf ended at %d)" % (l.symbol.name, s, en, l.value, pos))
                return
            pos = en
        if kind == "LR" and not case.get("prefix_mode"):
            ctx.count("coverage_checked")
            cover = [0] * n
            for l in leaves:
                for i in range(l.start_position, l.end_position):
                    cover[i] += 1
            for s, en in spans:
                for i in range(s, en):
                    cover[i] += 1
            if case.get("comments"):
                # with a LAYOUT rule: what lies between leaves / spans must be valid layout
                i = 0
                while i < n:
                    if cover[i] > 1:
                        ctx.violation("character-not-covered-exactly-once", case, "character %r at %d is covered %d times" % (inp[i], i, cover[i]))
                        return
                    if cover[i] == 1:
                        i += 1
                        continue
                    j = i
                    while j < n and cover[j] == 0:
                        j += 1
                    gap = inp[i:j]
                    if cfg.skip_comments(gap, 0) != len(gap):
                        ctx.violation(
                            "non-layout-text-in-no-leaf-and-no-span",
                            case,
                            "input[%d:%d]=%r is neither in a leaf nor in a reported error span and is not layout; leaves %s, spans %s" % (i, j, gap, [(l.start_position, l.end_position) for l in leaves], spans),
                        )
                        return
                    i = j
                continue
            for i, ch in enumerate(inp):
                if ch in cfg.WS:
                    continue
                if cover[i] != 1:
                    ctx.violation(
                        "character-not-covered-exactly-once",
                        case,
                        "character %r at %d is covered %d times; leaves %s, error spans %s" % (ch, i, cover[i], [(l.start_position, l.end_position) for l in leaves], spans),
                    )
                    return


def replay(case, ctx):
    g = cfg.G.from_json(case["g"])
    lmon = LRMonitor()
    lmon.install()
    gmon = GssMonitor(check_closure=False, reduce_budget=200000)
    gmon.install()
    rmon = GlrRecoveryMonitor()
    try:
        pg = pgx.grammar(case["grammar"])
        strat, sstate = strategies(pg)
        kind, sname = case["parser"], case["strategy"]
        pkw = {"consume_input": False} if case.get("prefix_mode") else {}
        if kind == "LR":
            parser = pgx.lr(pg, build_tree=True, error_recovery=strat[sname], **pkw)
            plain = pgx.lr(pgx.grammar(case["grammar"]), build_tree=True, **pkw)
        else:
            parser = pgx.glr(pg, error_recovery=strat[sname], **pkw)
            plain = pgx.glr(pgx.grammar(case["grammar"]), **pkw)
        det = kind == "LR" and all(len(a) == 1 for s in parser.table.states for a in s.actions.values())
        check(ctx, lmon, rmon, g, pg, pgx.prod_keys(pg), parser, plain, kind, sname, det, case, case["input"])
    finally:
        lmon.uninstall()
        gmon.uninstall()
        rmon.uninstall()
