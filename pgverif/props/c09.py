"""C09 - all ways of running semantic actions give the same result."""

from pgverif import cfg, glrobs, pgx
from pgverif.mon.cover import Cover
from pgverif.mon.lr import LRMonitor
from pgverif.props import glrwork

ID = "C09"
LEVEL = "exploration"
RULE = (
    "cases = (grammar with a random action table and random named matches, sentence): every nonterminal gets no action / one "
    "callable / a per-alternative list; right-hand-side symbols get '=' or '?=' names at random; some terminals get actions; "
    "instrumented actions return (rule, alternative index, args, kwargs) so equality of results is equality of the whole call tree. "
    "Routes compared on every sentence the LR parser accepts: on-the-fly, build_tree + call_actions, GLR + call_actions when the "
    "forest has one tree; when the reference chart has exactly one derivation the expected call tree is computed independently from "
    "it (argument order, alternative index, assignment binding, default nested-list / obj results). Built-in +,*,?,separator "
    "actions are checked on sugared grammars against the flat-list specification. Non-trivial = sentence with >= 2 tokens or a "
    "named match involved; distinct = (grammar, action table, input)."
)
ASSUMPTIONS = ["reference chart tree + a 30-line evaluator is the specification of which arguments each action receives"]


def plan(tier):
    return {"nshards": 16, "budget_s": 35 if tier == "quick" else 300}


def required(tier):
    return {
        "nontrivial": 2000 if tier == "quick" else 20000,
        "routes.fly_vs_deferred": 3000,
        "routes.glr": 1500,
        "routes.during_tree_build": 1500,
        "expected.compared": 1500,
        "shape.action_list": 200,
        "shape.named_eq": 200,
        "shape.named_bool": 200,
        "shape.default_obj": 100,
        "shape.no_action": 200,
        "shape.terminal_action": 100,
        "shape.rule_defined_in_two_places": 100,
        "builtin.cases": 300,
        "shape.other_action_table_used_before": 100,
        "shape.accept_all_dynamic_filter": 50,
        "reentrant.cases": 300,
        "cover.call_actions": 20,
        "cover._call_reduce_action": 20,
    }


# ---------------------------------------------------------------------------


def make_spec(ctx, g):
    rng = ctx.rng
    naming = {}
    named_rules = set()
    for pi, (l, r) in enumerate(g.prods):
        names = []
        for i, s in enumerate(r):
            x = rng.random()
            if x < 0.2:
                names.append(("n%d" % i, "="))
            elif x < 0.3:
                names.append(("b%d" % i, "?="))
            else:
                names.append(None)
        if rng.random() < 0.5:
            names = [None] * len(r)
        naming[pi] = names
        if any(names):
            named_rules.add(l)
    kinds = {}
    for n in g.nts:
        kinds[n] = rng.choice(["none", "single", "single", "list", "list"])
    tacts = set(t for t in g.terms if rng.random() < 0.2)
    split = {}
    if len(g.nts) >= 2:
        for n in g.nts:
            # (a rule whose default obj action comes from named matches is not split: the
            # documentation does not say what a later definition's named matches mean)
            if len(g.by[n]) >= 2 and rng.random() < 0.3 and not (kinds[n] == "none" and n in named_rules):
                split[n] = rng.randint(1, len(g.by[n]) - 1)
    return {"naming": {str(k): v for k, v in naming.items()}, "kinds": kinds, "tacts": sorted(tacts), "split": split}


def spec_text(g, spec, inline):
    lines = []
    tail = []
    for n in g.order():
        alts = []
        for pi, r in g.by[n]:
            names = spec["naming"][str(pi)]
            syms = []
            for i, s in enumerate(r):
                ref = s
                if not cfg.is_nt(s) and inline and g.tdefs[s].kind == "str" and g.tdefs[s].text == s:
                    ref = '"%s"' % s
                nm = names[i]
                syms.append("%s%s%s" % (nm[0], nm[1], ref) if nm else ref)
            alts.append(" ".join(syms) if syms else "EMPTY")
        k = spec.get("split", {}).get(n)
        if k and 0 < k < len(alts):
            # the same rule defined in two places, other rules in between
            lines.append("%s: %s;" % (n, " | ".join(alts[:k])))
            tail.append("%s: %s;" % (n, " | ".join(alts[k:])))
        else:
            lines.append("%s: %s;" % (n, " | ".join(alts)))
    lines.extend(tail)
    decl = [g.tdefs[t].decl(t) for t in g.terms if not (inline and g.tdefs[t].kind == "str" and g.tdefs[t].text == t)]
    if decl:
        lines.append("terminals")
        lines.extend(decl)
    return "\n".join(lines)


def make_actions(g, spec):
    acts = {}

    def single(name):
        def act(context, nodes, **kw):
            return ("A", name, None, tuple(nodes), tuple(sorted(kw.items())))

        return act

    def alt(name, i):
        def act(context, nodes, **kw):
            return ("A", name, i, tuple(nodes), tuple(sorted(kw.items())))

        return act

    for n in g.nts:
        k = spec["kinds"][n]
        if k == "single":
            acts[n] = single(n)
        elif k == "list":
            acts[n] = [alt(n, i) for i in range(len(g.by[n]))]
    for t in spec["tacts"]:
        acts[t] = (lambda name: (lambda context, value: ("T", name, value)))(t)
    return acts


def norm(v):
    if hasattr(v, "_pg_children"):
        return ("obj", type(v).__name__, tuple((n, norm(getattr(v, n))) for n in v._pg_children_names))
    if isinstance(v, list):
        return [norm(x) for x in v]
    if isinstance(v, tuple):
        return tuple(norm(x) for x in v)
    return v


def expected(g, spec, t, inp):
    """Independent evaluation of the reference derivation tree."""
    if t[0] == "t":
        val = inp[t[2] : t[3]]
        if t[1] in spec["tacts"]:
            return ("T", t[1], val)
        return val
    pi, children = t
    lhs, rhs = g.prods[pi]
    alt = [i for i, (qi, _) in enumerate(g.by[lhs]) if qi == pi][0]
    args = [expected(g, spec, c, inp) for c in children]
    names = spec["naming"][str(pi)]
    kw = {}
    for i, nm in enumerate(names):
        if nm:
            kw[nm[0]] = args[i] if nm[1] == "=" else bool(args[i])
    kind = spec["kinds"][lhs]
    rule_named = any(any(spec["naming"][str(qi)]) for qi, _ in g.by[lhs])
    if kind == "none":
        if rule_named:
            # default obj action: attributes of this production's named matches, in order
            return ("obj", lhs, tuple((nm[0], kw[nm[0]]) for nm in names if nm))
        return args[0] if len(args) == 1 else args
    if kind == "single":
        return ("A", lhs, None, tuple(args), tuple(sorted(kw.items())))
    return ("A", lhs, alt, tuple(args), tuple(sorted(kw.items())))


def unique_names_ok(spec):
    # two named matches with the same name in one production are not generated (names carry the index)
    return True


def run(ctx):
    import parglare.parser as PP

    cover = Cover({"call_actions": PP.Parser.call_actions, "_call_reduce_action": PP.Parser._call_reduce_action, "_call_shift_action": PP.Parser._call_shift_action})
    cover.install()
    mon = LRMonitor()
    mon.install()
    maxlen = 4 if ctx.tier == "quick" else 5
    try:
        n = 0
        for name, g, alphabet in glrwork.grammar_stream(ctx, acyclic=True, eps_weights=(1, 1, 2, 2), overlap_share=0.0):
            if not ctx.more():
                break
            n += 1
            one_grammar(ctx, g, alphabet, maxlen)
            if n % 5 == 0:
                builtin_case(ctx)
                reentrant_case(ctx)
    finally:
        mon.uninstall()
        cover.uninstall()
    cover.report(ctx)


def accept_all(context, from_state, to_state, action, production, subresults):
    return True


def build_all(text, g, spec, decoy=False, filt=False):
    acts = make_actions(g, spec)
    # a dynamic filter that accepts everything changes no result (C18) - but the drivers then
    # run their filter code next to the action calls
    fkw = {"dynamic_filter": accept_all} if filt else {}

    def gr():
        pg = pgx.grammar(text)
        if decoy and acts:
            # another parser with another (complete) action table was built from this Grammar
            # object before: the action set given now is what counts
            dec = {n: (lambda name: (lambda context, nodes, **kw: ("DECOY", name)))(n) for n in g.nts}
            dec.update({t: (lambda name: (lambda context, value: ("DECOY-T", name)))(t) for t in g.terms})
            try:
                pgx.lr(pg, actions=dec)
            except Exception:  # noqa: BLE001
                pgx.glr(pg, actions=dec)
        return pg

    fly = pgx.lr(gr(), actions=acts, **fkw)
    deferred = pgx.lr(gr(), actions=acts, build_tree=True, **fkw)
    glr = pgx.glr(gr(), actions=acts, **fkw)
    # build the tree *and* call the actions on the way (their results are discarded): the tree must stay intact
    deferred.during = pgx.lr(gr(), actions=acts, build_tree=True, call_actions_during_tree_build=True, **fkw)
    return fly, deferred, glr


def one_grammar(ctx, g, alphabet, maxlen):
    spec = make_spec(ctx, g)
    inline = ctx.rng.random() < 0.3
    text = spec_text(g, spec, inline)
    decoy = ctx.rng.random() < 0.3
    if decoy:
        ctx.count("shape.other_action_table_used_before")
    filt = ctx.rng.random() < 0.2
    if filt:
        ctx.count("shape.accept_all_dynamic_filter")
    try:
        with pgx.watchdog(20):
            fly, deferred, glr = build_all(text, g, spec, decoy, filt)
    except Exception as e:  # noqa: BLE001
        ctx.count("construction_failed:" + type(e).__name__)
        return
    for n in g.nts:
        k = spec["kinds"][n]
        ctx.count({"none": "shape.no_action", "single": "shape.action_single", "list": "shape.action_list"}[k])
        if k == "none" and any(any(spec["naming"][str(qi)]) for qi, _ in g.by[n]):
            ctx.count("shape.default_obj")
    for names in spec["naming"].values():
        for nm in names:
            if nm:
                ctx.count("shape.named_eq" if nm[1] == "=" else "shape.named_bool")
    if spec["tacts"]:
        ctx.count("shape.terminal_action")
    if spec.get("split"):
        ctx.count("shape.rule_defined_in_two_places")
    case0 = {"grammar": text, "g": g.to_json(), "spec": spec, "decoy": decoy, "filter": filt}
    if len(alphabet) >= 3 and maxlen > 3:
        maxlen = 3
    for w in cfg.all_strings(alphabet, maxlen):
        inp = glrwork.relayout(w, ctx.rng) if ctx.rng.random() < 0.3 else w
        check_input(ctx, g, spec, fly, deferred, glr, dict(case0, input=inp), inp)


def check_input(ctx, g, spec, fly, deferred, glr, case, inp):
    try:
        with pgx.watchdog(30):
            k1, v1 = pgx.outcome(fly.parse, inp)
            if k1 != "ret":
                return
            k2, tree = pgx.outcome(deferred.parse, inp)
    except (pgx.CaseTimeout, pgx.BudgetExceeded):
        ctx.count("timeout_or_diverged")
        return
    named = any(any(v) for v in spec["naming"].values())
    ctx.case((case["grammar"], str(spec["kinds"]), inp), len(inp.strip()) >= 2 or named, sample={"grammar": case["grammar"], "kinds": spec["kinds"], "input": inp})
    if k2 != "ret":
        ctx.violation("deferred-parser-rejects", case, "Parser(build_tree=True) gives %s where Parser with actions accepts" % k2)
        return
    r1 = norm(v1)
    try:
        r2 = norm(deferred.call_actions(tree))
    except Exception as e:  # noqa: BLE001
        ctx.violation("call-actions-raises:" + type(e).__name__, case, "call_actions(tree) raised %s: %s" % (type(e).__name__, str(e)[:200]))
        return
    ctx.count("routes.fly_vs_deferred")
    if r1 != r2:
        ctx.violation("fly-vs-deferred", case, "on-the-fly result %s differs from call_actions(tree) %s" % (str(r1)[:300], str(r2)[:300]))
        return
    during = getattr(deferred, "during", None)
    if during is not None:
        k5, tree5 = pgx.outcome(during.parse, inp)
        ctx.count("routes.during_tree_build")
        if k5 != "ret":
            ctx.violation("during-tree-build-parser-differs", case, "Parser(build_tree=True, call_actions_during_tree_build=True) gives %s" % k5)
            return
        try:
            r5 = norm(during.call_actions(tree5))
        except Exception as e:  # noqa: BLE001
            ctx.violation("call-actions-raises:" + type(e).__name__, case, "call_actions on the tree built with call_actions_during_tree_build raised %s: %s" % (type(e).__name__, str(e)[:200]))
            return
        if r5 != r1:
            ctx.violation("during-tree-build-vs-fly", case, "tree built while calling actions evaluates to %s, on-the-fly result %s" % (str(r5)[:300], str(r1)[:300]))
            return
    chart = cfg.Chart(g, inp)
    cnt = chart.count()
    go = glrobs.parse_glr(glr, inp)
    if go.kind == "forest" and not go.loop and go.len == 1:
        try:
            r3 = norm(glr.call_actions(go.forest[0]))
        except Exception as e:  # noqa: BLE001
            ctx.violation("glr-call-actions-raises:" + type(e).__name__, case, "GLR call_actions raised %s: %s" % (type(e).__name__, str(e)[:200]))
            return
        ctx.count("routes.glr")
        if cnt == 1 and r3 != r1:
            ctx.violation("glr-vs-lr", case, "GLR call_actions %s differs from the LR result %s" % (str(r3)[:300], str(r1)[:300]))
            return
        r4 = norm(glr.call_actions(go.forest.get_first_tree()))
        if r4 != r3:
            ctx.violation("glr-first-tree-actions", case, "call_actions(get_first_tree()) differs from call_actions(forest[0])")
            return
    if cnt == 1:
        want = norm(expected(g, spec, chart.trees()[0], inp))
        ctx.count("expected.compared")
        if want != r1:
            ctx.violation("differs-from-specification", case, "result %s, expected from the derivation tree %s" % (str(r1)[:400], str(want)[:400]))


# --- built-in actions behind + * ? and separators -------------------------

BUILTINS = [
    # (grammar, generator of (input, expected))
    ('S: "a"+;', lambda k: ("a" * k, ["a"] * k), 1),
    ('S: "a"*;', lambda k: ("a" * k, ["a"] * k), 0),
    ('S: "b" "a"? "c";', lambda k: ("bac" if k % 2 else "bc", ["b", "a" if k % 2 else None, "c"]), 0),
    ('S: "a"+[comma];\nterminals\ncomma: ",";', lambda k: (",".join("a" * k), ["a"] * k), 1),
    ('S: "a"*[comma] "b";\nterminals\ncomma: ",";', lambda k: (",".join("a" * k) + "b", [["a"] * k, "b"]), 0),
    ('S: A+; A: "a" "b";', lambda k: ("ab" * k, [["a", "b"]] * k), 1),
    ('S: x=A* y="c";\nA: "a";', lambda k: ("a" * k + "c", ("obj", "S", (("x", ["a"] * k), ("y", "c")))), 0),
    ('S: "a"*! "b";', lambda k: ("a" * k + "b", [["a"] * k, "b"]), 0),
    ('S: "a"+! "b";', lambda k: ("a" * k + "b", [["a"] * k, "b"]), 1),
    ('S: A+! "c";\nA: "a" "b";', lambda k: ("ab" * k + "c", [[["a", "b"]] * k, "c"]), 1),
    ('S: "b" "a"+! "b" "a"+;', lambda k: ("b" + "a" * k + "b" + "a" * k, ["b", ["a"] * k, "b", ["a"] * k]), 1),
    ('S: ("a" "b")+ "c";', lambda k: ("ab" * k + "c", [[["a", "b"]] * k, "c"]), 1),
    ('S: x?="a"? "b";', lambda k: ("ab" if k % 2 else "b", ("obj", "S", (("x", bool(k % 2)),))), 0),
    # built-in actions referenced from the grammar with @name
    ('@pass_single\nS: A "b";\nA: "a"+;', lambda k: ("a" * k + "b", ["a"] * k), 1),
    ('@pass_inner\nS: "(" A ")";\nA: "a"*;', lambda k: ("(" + "a" * k + ")", ["a"] * k), 0),
    ('@pass_none\nS: "a"+;', lambda k: ("a" * k, None), 1),
    ('@collect\nS: S "a" | "a";', lambda k: ("a" * k, ["a"] * k), 1),
    ('@collect_sep\nS: S "," "a" | "a";', lambda k: (",".join("a" * k), ["a"] * k), 1),
    ('@collect_optional\nS: S "a" | "a" | EMPTY;', lambda k: ("a" * k, ["a"] * k), 0),
    ('@collect_right\nS: "a" S | "a";', lambda k: ("a" * k, ["a"] * k), 1),
    ('@collect_right_sep\nS: "a" "," S | "a";', lambda k: (",".join("a" * k), ["a"] * k), 1),
    ('@collect_right_optional\nS: "a" S | "a" | EMPTY;', lambda k: ("a" * k, ["a"] * k), 0),
    ('@collect_right_sep_optional\nS: "a" "," S | "a" | EMPTY;', lambda k: (",".join("a" * k), ["a"] * k), 0),
    ('@collect_sep_optional\nS: S "," "a" | "a" | EMPTY;', lambda k: (",".join("a" * k), ["a"] * k), 0),
    ('S: A;\n@optional\nA: "a" | EMPTY;', lambda k: ("a" if k % 2 else "", "a" if k % 2 else None), 0),
]


ELEMENT_VALUES = [0, "", [], False, 0.0, (), "x", 7, {}]


def subst(v, val):
    if v == "a" and isinstance(v, str):
        return val
    if isinstance(v, list):
        return [subst(x, val) for x in v]
    if isinstance(v, tuple):
        if len(v) == 3 and v[0] == "obj":
            return ("obj", v[1], tuple((n, subst(x, val)) for n, x in v[2]))
        return tuple(subst(x, val) for x in v)
    return v


def builtin_case(ctx):
    rng = ctx.rng
    text, gen, lo = rng.choice(BUILTINS)
    k = rng.randint(lo, 5)
    inp, want = gen(k)
    kw = {}
    if rng.random() < 0.5 and "?=" not in text:
        # the matched elements are whatever the element's action returned - also values
        # that are falsy (but not None: KF-C13-4)
        val = rng.choice(ELEMENT_VALUES)
        kw = {"actions": {"a": lambda _, v, val=val: val}}
        want = subst(want, val)
        ctx.count("builtin.element_value:%r" % (val,))
    case = {"grammar": text, "input": inp, "builtin": True, "want": repr(want)}
    ctx.count("builtin.cases")
    fly = pgx.lr(pgx.grammar(text), **kw)
    deferred = pgx.lr(pgx.grammar(text), build_tree=True, **kw)
    glr = pgx.glr(pgx.grammar(text), **kw)
    ctx.case((text, inp), True, sample={"grammar": text, "input": inp, "expected": repr(want)})
    k1, v1 = pgx.outcome(fly.parse, inp)
    if k1 != "ret":
        ctx.violation("builtin-rejected", case, "%s" % k1)
        return
    r1 = norm(v1)
    if r1 != norm(want):
        ctx.violation("builtin-result", case, "result %s, documented %s" % (r1, want))
        return
    k2, tree = pgx.outcome(deferred.parse, inp)
    r2 = norm(deferred.call_actions(tree))
    if r2 != r1:
        ctx.violation("builtin-fly-vs-deferred", case, "%s vs %s" % (r1, r2))
        return
    during = pgx.lr(pgx.grammar(text), build_tree=True, call_actions_during_tree_build=True, **kw)
    k5, tree5 = pgx.outcome(during.parse, inp)
    try:
        r5 = norm(during.call_actions(tree5)) if k5 == "ret" else ("outcome", k5)
    except Exception as e:  # noqa: BLE001
        r5 = ("raised", type(e).__name__, str(e)[:100])
    if r5 != r1:
        ctx.violation("builtin-during-tree-build", case, "tree built with call_actions_during_tree_build evaluates to %s, on-the-fly %s" % (r5, r1))
        return
    go = glrobs.parse_glr(glr, inp)
    if go.kind == "forest" and go.len == 1:
        r3 = norm(glr.call_actions(go.forest[0]))
        if r3 != r1:
            ctx.violation("builtin-glr-vs-lr", case, "%s vs %s" % (r3, r1))


# --- actions that use the parser they run in -------------------------------------

REENTRANT = 'E: E "+" T | T;\nT: "n" | "q" | "(" E ")";'
NESTED = ["n+n+n", "n", "(n+n)+n+n"]


def reentrant_case(ctx):
    """An action may parse another text with the very parser it is running in (include /
    eval style actions); the outer parse must go on with its own sub-results, in every
    route of evaluating actions."""
    rng = ctx.rng
    nested = rng.choice(NESTED)
    nv = nested.count("n")
    toks = [rng.choice(["n", "q", "q", "(n+q)", "(q)"]) for _ in range(rng.randint(1, 5))]
    inp = "+".join(toks)
    if rng.random() < 0.3:
        inp = inp.replace("+", " + ")
    want = sum({"n": 1, "q": nv, "(n+q)": 1 + nv, "(q)": nv}[t] for t in toks)
    case = {"grammar": REENTRANT, "input": inp, "reentrant": nested, "builtin": True, "want": want}
    ctx.case((REENTRANT, inp, nested), True, sample={"grammar": REENTRANT, "input": inp, "nested_text": nested, "expected": want})
    ctx.count("reentrant.cases")
    # (with call_actions_during_tree_build the sub-results during the build are tree nodes, not
    # values: that route is not part of this case)
    for route in ("fly", "deferred", "glr"):
        holder = {"depth": 0}

        def t_act(context, nodes, holder=holder, route=route):
            if nodes[0] == "n":
                return 1
            if nodes[0] == "(":
                return nodes[1]
            prs = holder["p"]
            holder["depth"] += 1
            try:
                r = prs.parse(nested)
                if route in ("deferred", "during"):
                    r = prs.call_actions(r)
                elif route == "glr":
                    r = prs.call_actions(r[0])
            finally:
                holder["depth"] -= 1
            return r

        def e_act(context, nodes):
            return nodes[0] + nodes[2] if len(nodes) == 3 else nodes[0]

        acts = {"E": e_act, "T": t_act}
        try:
            if route == "fly":
                prs = pgx.lr(pgx.grammar(REENTRANT), actions=acts)
            elif route == "deferred":
                prs = pgx.lr(pgx.grammar(REENTRANT), actions=acts, build_tree=True)
            elif route == "during":
                prs = pgx.lr(pgx.grammar(REENTRANT), actions=acts, build_tree=True, call_actions_during_tree_build=True)
            else:
                prs = pgx.glr(pgx.grammar(REENTRANT), actions=acts)
            holder["p"] = prs
            r = prs.parse(inp)
            if route in ("deferred", "during"):
                r = prs.call_actions(r)
            elif route == "glr":
                r = prs.call_actions(r[0])
        except Exception as e:  # noqa: BLE001
            r = ("raised", type(e).__name__, str(e)[:100])
        ctx.count("reentrant.route." + route)
        if r != want:
            ctx.violation("reentrant-action:" + route, dict(case, route=route), "route %s gives %r, the value of the expression is %r" % (route, r, want))
            return


def replay(case, ctx):
    if case.get("builtin"):
        return
    g = cfg.G.from_json(case["g"])
    fly, deferred, glr = build_all(case["grammar"], g, case["spec"], case.get("decoy", False), case.get("filter", False))
    check_input(ctx, g, case["spec"], fly, deferred, glr, case, case["input"])
