"""C07 - token choice follows the documented lexical disambiguation order."""

import parglare
from parglare.grammar import STOP

from pgverif import cfg, pgx
from pgverif.mon.lr import LRMonitor

ID = "C07"
LEVEL = "exploration"
RULE = (
    "events = every call of the real scanner (Parser._next_tokens, LR and GLR) recorded by the LR monitor while parsing all strings "
    "over {a,b,c} up to the bound with grammars whose terminals mix string, regex, keyword and custom recognizers with random "
    "priorities / prefer / finish / nofinish, several expected sets per grammar, lexical_disambiguation on/off, ignore_case on/off, "
    "custom_token_recognition pass-through; oracle = the documented rule applied naively to the same expected set and position "
    "with independent matchers. Events where a matching terminal carries an explicit finish/nofinish mark are judged against the "
    "admissible set only. Non-trivial = event with >= 2 matching expected terminals; distinct = (grammar, mode, input, position, state)."
)
ASSUMPTIONS = [
    "independent matchers: literal startswith, Python re without flags (pool has no whitespace/anchors), keyword = literal + no adjacent word character",
    "explicit finish/nofinish are user overrides; such events are checked for admissibility (returned tokens are matching expected terminals of the highest matching priority), not for the exact winner",
]

STR_POOL = ["a", "aa", "ab", "abc", "b", "ba", "c", "ac", "bc", "A", "aB", "cc"]
RE_POOL = ["a+", "[ab]+", "ab?", "a|ab", "[a-c]", "b+a?", "abc?", "[abc]{2}", "c*a", "[A-Ca-c]b", "b|bc|bcc"]
PRIORS = [10, 10, 10, 10, 5, 15, 20, 0, 1]


def plan(tier):
    return {"nshards": 16, "budget_s": 35 if tier == "quick" else 300}


def required(tier):
    return {
        "nontrivial": 3000 if tier == "quick" else 30000,
        "events.strict": 50000,
        "events.multi_match": 3000,
        "events.winner_by.priority": 300,
        "events.winner_by.string_over_regex": 300,
        "events.winner_by.longest": 300,
        "events.winner_by.prefer": 30,
        "events.ambiguous": 100,
        "events.none": 1000,
        "mode.lr": 100,
        "mode.glr": 100,
        "mode.glr_ld": 30,
        "mode.ignore_case": 30,
        "mode.custom_recognition": 30,
        "mode.consume_input_off": 30,
        "mode.precomputed_table": 15,
        "events.stop_offered_next_to_tokens": 2000,
        "kind.custom": 30,
        "kind.kw": 30,
    }


def make_vocab(ctx, gi):
    rng = ctx.rng
    k = rng.randint(2, 6)
    # names of different lengths: the scan order must follow the texts, never the names
    names = ["T%d%s" % (i, "_name"[: rng.choice([0, 0, 1, 3, 5])]) for i in range(k)]
    tdefs = {}
    custom = {}
    used = set()
    keyword = rng.random() < 0.2
    for n in names:
        r = rng.random()
        if r < 0.42:
            pool = STR_POOL + (["a=", "a-", "ab=", "=a", "b-a", "a+"] if keyword else [])
            v = rng.choice([s for s in pool if s not in used])
            used.add(v)
            d = cfg.TDef("kw" if (keyword and all(cfg._is_word(ch) for ch in v)) else "str", v)
        elif r < 0.9:
            d = cfg.TDef("re", rng.choice(RE_POOL))
        else:
            d = cfg.TDef("re", rng.choice(RE_POOL))
            custom[n] = True
        if rng.random() < 0.35:
            d.prior = rng.choice(PRIORS)
        if rng.random() < 0.2:
            d.prefer = True
        if gi % 3 == 0 and rng.random() < 0.2:
            d.finish = rng.choice([True, False])
        tdefs[n] = d
    return names, tdefs, custom, keyword


def make_grammar(ctx, names, tdefs, custom, keyword):
    rng = ctx.rng
    ng = rng.randint(2, 3)
    groups = [rng.sample(names, rng.randint(1, len(names))) for _ in range(ng)]
    gn = ["A", "B", "C"][:ng]
    alts = set()
    for _ in range(rng.randint(1, 3)):
        alts.add(" ".join(rng.choice(gn) for _ in range(rng.randint(1, 3))))
    lines = ["S: %s;" % " | ".join(sorted(alts))]
    for n, grp in zip(gn, groups):
        lines.append("%s: %s;" % (n, " | ".join(grp)))
    lines.append("terminals")
    for n in names:
        if n in custom:
            d = tdefs[n]
            meta = []
            if d.prior != 10:
                meta.append(str(d.prior))
            if d.prefer:
                meta.append("prefer")
            if d.finish is True:
                meta.append("finish")
            elif d.finish is False:
                meta.append("nofinish")
            lines.append("%s: %s;" % (n, ("{%s}" % ", ".join(meta)) if meta else ""))
        else:
            lines.append(tdefs[n].decl(n))
    if keyword:
        lines.append("KEYWORD: /\\w+/;")
    return "\n".join(lines)


def custom_recognizer(tdef, ignore_case, style=0):
    """style 0: (input, pos) -> value; 1: returns (value, additional data);
    2: takes the parsing context as first argument."""
    if style == 2:

        def rec3(context, inp, pos):
            e = tdef.match(inp, pos, ignore_case)
            return inp[pos:e] if e is not None else None

        return rec3

    def rec(inp, pos):
        e = tdef.match(inp, pos, ignore_case)
        if e is not None:
            return (inp[pos:e], "extra", pos) if style == 1 else inp[pos:e]
        return None

    return rec


def ref_scan(expected, tdefs, custom, inp, pos, lexical_disambiguation, ignore_case, stop_expected, consume_input=True):
    """The documented rule.  Returns (expected result as sorted [(name,value)],
    reason, explicit_mark_involved, number of matches)."""
    res = []
    if stop_expected and (not consume_input or pos == len(inp)):
        res.append(("STOP", ""))
    matches = []
    if pos < len(inp):
        for n in expected:
            d = tdefs.get(n)
            if d is None:
                continue
            e = d.match(inp, pos, ignore_case)
            if e is not None:
                matches.append((n, inp[pos:e], d))
    nmatch = len(matches)
    if not matches:
        return sorted(res), "none", False, 0
    explicit = any(d.finish is not None for _, _, d in matches)
    mp = max(d.prior for _, _, d in matches)
    reason = None
    top = [m for m in matches if m[2].prior == mp]
    if len(top) < len(matches):
        reason = "priority"
    matches = top
    if not lexical_disambiguation:
        return sorted(res + [(n, v) for n, v, _ in matches]), reason or "all", explicit, nmatch
    strs = [m for m in matches if m[2].kind in ("str", "kw") and m[0] not in custom]
    if strs and len(strs) < len(matches):
        reason = "string_over_regex"
    if strs:
        matches = strs
    ml = max(len(v) for _, v, _ in matches)
    lm = [m for m in matches if len(m[1]) == ml]
    if len(lm) < len(matches):
        reason = "longest"
    matches = lm
    if len(matches) > 1:
        pref = [m for m in matches if m[2].prefer]
        if pref:
            if len(pref) < len(matches):
                reason = "prefer"
            matches = pref
    if len(matches) > 1:
        reason = "ambiguous"
    return sorted(res + [(n, v) for n, v, _ in matches]), reason or "single", explicit, nmatch


def admissible_outcomes(expected, tdefs, custom, inp, pos, lexical_disambiguation, ignore_case, stop_expected):
    """Events with an explicit finish/nofinish mark: the outcome depends on the
    order in which candidates are tried.  The documented order is a partial one
    (priority first, string recognizers - longer first - before regexes); the
    set of admissible outcomes is what the flag driven scan gives under *some*
    linear order consistent with it, with implicit flags as documented (string
    and keyword terminals finish, a regex finishes iff the next candidate has a
    strictly lower priority) and explicit flags honoured."""
    import itertools

    res = []
    if stop_expected and pos == len(inp):
        res.append(("STOP", ""))
    cands = [n for n in expected if n in tdefs]
    by_prior = {}
    for n in cands:
        by_prior.setdefault(tdefs[n].prior, []).append(n)
    groups = []
    for pr in sorted(by_prior, reverse=True):
        strs = [n for n in by_prior[pr] if tdefs[n].kind in ("str", "kw") and n not in custom]
        regs = [n for n in by_prior[pr] if n not in strs]
        # strings: longer first, ties in any order
        bylen = {}
        for n in strs:
            bylen.setdefault(len(tdefs[n].text), []).append(n)
        parts = [list(itertools.permutations(bylen[L])) for L in sorted(bylen, reverse=True)]
        parts.append(list(itertools.permutations(regs)))
        groups.append(parts)
    flat_parts = [p for g in groups for p in g]
    outcomes = set()
    count = 0
    for combo in itertools.product(*flat_parts):
        count += 1
        if count > 3000:
            return None
        order = [n for part in combo for n in part]
        toks = []
        last_prior = -1
        for i, n in enumerate(order):
            d = tdefs[n]
            if d.prior < last_prior and toks:
                break
            last_prior = d.prior
            if d.finish is not None:
                flag = d.finish
            elif d.kind in ("str", "kw") and n not in custom:
                flag = True
            else:
                flag = i + 1 < len(order) and tdefs[order[i + 1]].prior < d.prior
            e = d.match(inp, pos, ignore_case) if pos < len(inp) else None
            if e is not None:
                toks.append((n, inp[pos:e]))
                if flag:
                    break
        if lexical_disambiguation and len(toks) > 1:
            ml = max(len(v) for _, v in toks)
            toks = [t for t in toks if len(t[1]) == ml]
            if len(toks) > 1:
                pref = [t for t in toks if tdefs[t[0]].prefer]
                if pref:
                    toks = pref
        outcomes.add(tuple(sorted(res + toks)))
    return outcomes


def run(ctx):
    mon = LRMonitor(record_events=True)
    mon.install()
    gi = 0
    try:
        while ctx.more():
            gi += 1
            one_grammar(ctx, mon, gi)
    finally:
        mon.uninstall()


def build(text, mode, tdefs, custom, ignore_case, passthrough, prefix_mode=False, pretable=False):
    recs = {n: custom_recognizer(tdefs[n], ignore_case, style=(sum(map(ord, n)) + len(text)) % 3) for n in custom} or None
    pg = pgx.grammar(text, recognizers=recs, ignore_case=ignore_case)
    kw = {}
    if passthrough:
        kw["custom_token_recognition"] = lambda head, get_tokens: get_tokens()
    if prefix_mode:
        kw["consume_input"] = False
    if mode == "lr":
        if pretable:
            # a table computed beforehand with create_table() and handed over: same scanner behaviour
            import parglare.tables as T

            with pgx.quiet():
                kw["table"] = T.create_table(pg, prefer_shifts=True, prefer_shifts_over_empty=True)
        return pg, pgx.lr(pg, **kw)
    if mode == "glr":
        if pretable:
            # the table of another GLR parser handed over: the GLR defaults (no lexical disambiguation) stay
            first = pgx.glr(pg, **kw)
            return pg, pgx.glr(pg, table=first.table, **kw)
        return pg, pgx.glr(pg, **kw)
    return pg, pgx.glr(pg, lexical_disambiguation=True, **kw)


def one_grammar(ctx, mon, gi):
    rng = ctx.rng
    names, tdefs, custom, keyword = make_vocab(ctx, gi)
    text = make_grammar(ctx, names, tdefs, custom, keyword)
    ignore_case = rng.random() < 0.15
    passthrough = rng.random() < 0.15
    # consume_input=False: the end-of-input pseudo token is offered next to real tokens at every
    # position; it must not change which real tokens are found (whether STOP itself survives
    # lexical disambiguation is C17's subject, KF-C17-1)
    prefix_mode = rng.random() < 0.2
    pretable = rng.random() < 0.15
    maxlen = 4 if ctx.tier == "quick" else 5
    alphabet = "abc" if not ignore_case else "abAB"
    if keyword:
        alphabet = rng.choice(["ab_", "ab_ ", "ab= ", "ab-", "ab+="])
    inputs = list(cfg.all_strings(alphabet, maxlen, 1))
    if len(inputs) > 150:
        inputs = rng.sample(inputs, 150)
    for mode in ("lr", "glr", "glr_ld"):
        if mode == "glr_ld" and rng.random() < 0.6:
            continue
        case0 = {
            "grammar": text,
            "tdefs": {k: v.to_json() for k, v in tdefs.items()},
            "custom": sorted(custom),
            "mode": mode,
            "ignore_case": ignore_case,
            "passthrough": passthrough,
            "prefix_mode": prefix_mode,
            "pretable": pretable,
        }
        try:
            pg, parser = build(text, mode, tdefs, custom, ignore_case, passthrough, prefix_mode, pretable)
        except Exception as e:  # noqa: BLE001
            ctx.count("construction_failed:" + type(e).__name__)
            continue
        ctx.count("mode." + mode)
        if ignore_case:
            ctx.count("mode.ignore_case")
        if passthrough:
            ctx.count("mode.custom_recognition")
        if prefix_mode:
            ctx.count("mode.consume_input_off")
        if pretable and mode in ("lr", "glr"):
            ctx.count("mode.precomputed_table")
        for d in tdefs.values():
            ctx.count("kind." + d.kind)
        if custom:
            ctx.count("kind.custom", len(custom))
        for w in inputs:
            check_input(ctx, mon, parser, dict(case0, input=w), tdefs, custom, w)


def check_input(ctx, mon, parser, case, tdefs, custom, w):
    del mon.events[:]
    try:
        with pgx.watchdog(20):
            o = pgx.outcome(parser.parse, w)
    except (pgx.CaseTimeout, pgx.BudgetExceeded):
        ctx.inconc("parse timeout/diverged %r %r" % (case["grammar"], w))
        return
    if o[0] == "exc" and not isinstance(o[1], parglare.DisambiguationError):
        ctx.case((case["grammar"], case["mode"], w, "exc"), True)
        ctx.violation("unexpected-exception:" + type(o[1]).__name__, case, "%s: %s" % (type(o[1]).__name__, str(o[1])[:200]))
        return
    ld = parser.lexical_disambiguation
    for (ps, state, pos, toks) in mon.events:
        if ps is not parser:
            continue
        expected = [t.name for t in state.actions if t is not STOP]
        want, reason, explicit, nmatch = ref_scan(expected, tdefs, custom, w, pos, ld, case["ignore_case"], STOP in state.actions)
        got = sorted((t.symbol.name, t.value) for t in toks)
        if case.get("prefix_mode"):
            want = [x for x in want if x[0] != "STOP"]
            got = [x for x in got if x[0] != "STOP"]
            if STOP in state.actions:
                ctx.count("events.stop_offered_next_to_tokens")
        key = (case["grammar"], case["mode"], case["ignore_case"], case.get("prefix_mode", False), w, pos, state.state_id)
        ctx.case(key, nmatch >= 2, sample={"grammar": case["grammar"], "mode": case["mode"], "input": w, "position": pos, "expected": expected, "returned": got, "rule": reason})
        if nmatch >= 2:
            ctx.count("events.multi_match")
        if explicit and not ld:
            # without lexical disambiguation there are no finish flags at all: every
            # matching expected terminal of the highest matching priority is pursued
            explicit = False
        if explicit:
            ctx.count("events.explicit_mark")
            # admissible: every returned token is a matching expected terminal of the highest matching priority
            adm, _, _, _ = ref_scan(expected, tdefs, custom, w, pos, False, case["ignore_case"], STOP in state.actions)
            if not set(got) <= set(adm) or (adm and not got):
                ctx.violation("inadmissible-token", dict(case, position=pos, state=state.state_id), "returned %s, admissible %s" % (got, adm))
                return
            outs = admissible_outcomes(expected, tdefs, custom, w, pos, ld, case["ignore_case"], STOP in state.actions)
            if outs is not None and case.get("prefix_mode"):
                outs = set(tuple(x for x in o if x[0] != "STOP") for o in outs)
            if outs is not None:
                ctx.count("events.explicit_mark_judged_by_order_model")
                if tuple(got) not in outs:
                    ctx.violation(
                        "explicit-mark-outcome-not-admissible",
                        dict(case, position=pos, state=state.state_id),
                        "at %d expecting %s the scanner returned %s; under every candidate order consistent with the documented one the flag-driven scan gives one of %s" % (pos, expected, got, sorted(outs)[:4]),
                    )
                    return
            continue
        ctx.count("events.strict")
        ctx.count("events.winner_by." + reason if reason not in ("none", "ambiguous", "single", "all") else "events." + reason)
        if got != want:
            ctx.violation(
                "token-choice-differs:" + reason,
                dict(case, position=pos, state=state.state_id),
                "at position %d expecting %s the scanner returned %s, the documented order gives %s (%s)" % (pos, expected, got, want, reason),
            )
            return
    # boundary: DisambiguationError.tokens equals the tie set of the last event
    if o[0] == "exc":
        ctx.count("disambiguation_errors")
        last = [e for e in mon.events if e[0] is parser][-1]
        if sorted((t.symbol.name, t.value) for t in o[1].tokens) != sorted((t.symbol.name, t.value) for t in last[3]):
            ctx.violation("disambiguation-error-tokens", case, "DisambiguationError.tokens differ from the scanner's tie set")


def replay(case, ctx):
    tdefs = {k: cfg.TDef.from_json(v) for k, v in case["tdefs"].items()}
    custom = {k: True for k in case["custom"]}
    mon = LRMonitor(record_events=True)
    mon.install()
    try:
        pg, parser = build(case["grammar"], case["mode"], tdefs, custom, case["ignore_case"], case["passthrough"], case.get("prefix_mode", False), case.get("pretable", False))
        check_input(ctx, mon, parser, case, tdefs, custom, case["input"])
    finally:
        mon.uninstall()
