"""C20 - a grammar split over imported files means the same as the flattened grammar."""

import os
import shutil
import tempfile

import parglare

from pgverif import cfg, glrobs, pgx
from pgverif.mon.lr import LRMonitor

ID = "C20"
LEVEL = "exploration"
RULE = (
    "cases = (modular grammar over 2-4 files, input): import graph shapes chain / diamond / cycle / fan, with and without 'as' "
    "aliases, references through one or two levels of qualified names, optional override of an imported rule in the root file under "
    "its qualified name (first import path), repetition operators on imported rules; files are written to a scratch directory and "
    "loaded with Grammar.from_file; oracle = the flattened single-file grammar built by the harness (each file's rules once under "
    "mangled names, override replacing the rule for every user): reference chart for the language, parglare on the flattened text "
    "for results (LR and GLR), expected set of qualified names (first import path, depth first in import order) vs "
    "grammar.nonterminals, production count. Non-trivial = accepted input or input of >= 2 characters; distinct = (files, input)."
)
ASSUMPTIONS = [
    "every file uses its own terminal characters so that terminals of different files never match the same text",
    "overrides are written only in the root file under the rule's canonical qualified name (the first import path, as the documentation defines the FQN)",
]

FILES = ["root", "b", "c", "d"]
TERMS = {"root": "rs", "b": "bx", "c": "cy", "d": "dz"}
SHAPES = {
    "chain2": {"root": ["b"], "b": []},
    "chain3": {"root": ["b"], "b": ["c"], "c": []},
    "chain4": {"root": ["b"], "b": ["c"], "c": ["d"], "d": []},
    "fan": {"root": ["b", "c"], "b": [], "c": []},
    "diamond": {"root": ["b", "c"], "b": ["d"], "c": ["d"], "d": []},
    "diamond2": {"root": ["c", "b"], "b": ["d"], "c": ["d"], "d": []},
    "cycle": {"root": ["b"], "b": ["c"], "c": ["b"]},
    "cycle_root": {"root": ["b"], "b": ["root"]},
    "mixed": {"root": ["b", "d"], "b": ["c", "d"], "c": ["d"], "d": []},
}


def plan(tier):
    return {"nshards": 16, "budget_s": 40 if tier == "quick" else 400}


def required(tier):
    d = {
        "nontrivial": 3000 if tier == "quick" else 30000,
        "grammars": 300,
        "inputs.language_compared": 10000,
        "inputs.results_compared": 3000,
        "names_compared": 300,
        "with_alias": 50,
        "with_override": 50,
        "with_nested_reference": 50,
        "with_repetition": 30,
        "with_explicit_empty": 30,
        "with_subdirectories": 30,
        "with_keyword": 20,
        "with_action_names": 30,
        "with_ignore_case": 20,
        "with_named_matches": 30,
        "with_one_operator_on_most_references": 30,
        "with_action_lists_per_alternative": 30,
    }
    for s in SHAPES:
        d["shape." + s] = 10
    return d


def flat_name(f, local):
    return f[0].upper() + f[1:] + "_" + local


def gen_modular(rng):
    shape = rng.choice(sorted(SHAPES))
    graph = SHAPES[shape]
    files = [f for f in FILES if f in graph]
    alias = {}
    for f in files:
        for t in graph[f]:
            alias[(f, t)] = (t if rng.random() < 0.6 else t + "q")
    locals_ = {f: (["S", "X"] if f == "root" else rng.choice([["X"], ["X", "Y"]])) for f in files}
    if shape == "cycle_root":
        locals_["root"] = ["S", "X"]
    feats = set()
    if any(alias[k] != k[1] for k in alias):
        feats.add("alias")
    # what each file can reference: (text in that file, (target file, local))
    def visible(f):
        out = []
        for t in graph[f]:
            for l in locals_[t]:
                if t == "root" and l == "S":
                    continue
                out.append(("%s.%s" % (alias[(f, t)], l), (t, l), 1))
            for t2 in graph[t]:
                if t2 == f:
                    continue
                for l in locals_[t2]:
                    if t2 == "root" and l == "S":
                        continue
                    out.append(("%s.%s.%s" % (alias[(f, t)], alias[(t, t2)], l), (t2, l), 2))
        return out

    # "heavy" grammars: most references to imported rules carry the same operator, so one rule
    # is used with it from several files and along several import paths
    heavy = rng.choice(["?", "?", "*", "+"]) if rng.random() < 0.15 else None
    rules = {}  # (file, local) -> list of alternatives; alt = list of ("t", char) | ("n", (file, local), text, rep)
    for f in files:
        vis = visible(f)
        for l in locals_[f]:
            alts = [[("t", rng.choice(TERMS[f]))]]
            for _ in range(rng.choice([1, 1, 2])):
                alt = [("t", rng.choice(TERMS[f]))]
                for _ in range(rng.choice([1, 1, 2])):
                    r = rng.random()
                    if vis and (r < 0.6 or (f == "root" and l == "S")):
                        text, tgt, depth = rng.choice(vis)
                        if depth == 2:
                            feats.add("nested")
                        rep = ""
                        if heavy and rng.random() < 0.7:
                            rep = heavy
                            feats.add("rep")
                            feats.add("heavy")
                        elif rng.random() < 0.12:
                            rep = rng.choice(["+", "?", "*"])
                            feats.add("rep")
                        alt.append(("n", tgt, text, rep))
                    elif r < 0.8:
                        l2 = rng.choice(locals_[f])
                        if not (f == "root" and l2 == "S"):
                            alt.append(("n", (f, l2), l2, ""))
                    else:
                        alt.append(("t", rng.choice(TERMS[f])))
                rng.shuffle(alt)
                if alt not in alts:
                    alts.append(alt)
            if rng.random() < 0.15 and not (f == "root" and l == "S"):
                # an explicitly spelled empty alternative (also inside imported files)
                alts.append([])
                feats.add("empty")
            rules[(f, l)] = alts
    # make sure the root start rule uses an imported rule
    vis = visible("root")
    if vis and not any(x[0] == "n" and x[1][0] != "root" for alt in rules[("root", "S")] for x in alt):
        text, tgt, depth = rng.choice(vis)
        rules[("root", "S")].append([("t", rng.choice(TERMS["root"])), ("n", tgt, text, "")])
    # override of an imported rule in the root file
    override = None
    fqn = expected_fqns(graph, alias, locals_)
    if rng.random() < 0.3:
        cands = [k for k in rules if k[0] != "root" and k in fqn]
        if cands:
            tgt = rng.choice(sorted(cands))
            alt = [("t", rng.choice(TERMS["root"]))]
            if rng.random() < 0.5 and vis:
                text, t2, depth = rng.choice(vis)
                alt.append(("n", t2, text, ""))
            override = (tgt, [alt, [("t", rng.choice(TERMS["root"])), ("t", rng.choice(TERMS["root"]))]])
            feats.add("override")
    if rng.random() < 0.2:
        # KEYWORD declared in the root applies to the string terminals of every file
        feats.add("keyword")
    dirs = {f: "" for f in files}
    if rng.random() < 0.3:
        for f in files:
            if f != "root":
                dirs[f] = rng.choice(["", "sub", "sub", "sub/deep", "other"])
        feats.add("subdirs")
    if rng.random() < 0.15:
        # an option of the load (from_file(..., ignore_case=True)) holds for every file
        feats.add("ignore_case")
    tagged = set()
    if rng.random() < 0.25:
        # rules carrying an action name (@tag) in the grammar; the parsers get actions={"tag": ...}
        for k in sorted(rules):
            if (override is None or k != override[0]) and rng.random() < 0.5:
                tagged.add(k)
        if tagged:
            feats.add("actions")
    named = set()
    if rng.random() < 0.25:
        # rules with named matches (objects are built for them) - in imported files and/or the root
        for k in sorted(rules):
            if (override is None or k != override[0]) and k not in tagged and rng.random() < 0.4:
                named.add(k)
        if rng.random() < 0.5:
            named = set(k for k in named if k[0] != "root")
        if named:
            feats.add("named")
    return {"shape": shape, "graph": graph, "files": files, "alias": alias, "locals": locals_, "rules": rules, "override": override, "fqn": fqn, "feats": feats, "dirs": dirs, "tagged": tagged, "named": named}


def tag(_, nodes):
    return ("T", nodes)


TAG_ACTIONS = {"tag": tag}


def expected_fqns(graph, alias, locals_):
    """Qualified name of every rule: first import path, depth first in import order."""
    fq = {}
    seen = set()

    def visit(f, prefix):
        if f in seen:
            return
        seen.add(f)
        for l in locals_[f]:
            fq[(f, l)] = ".".join(prefix + [l])
        for t in graph[f]:
            visit(t, prefix + [alias[(f, t)]])

    visit("root", [])
    return fq


def noncanonical_user(m):
    """KF-C20-1 static predicate: some reference to the overridden rule is written
    in a file / through a path whose qualified name differs from the rule's
    canonical qualified name (first import path)."""
    if not m["override"]:
        return False
    tgt = m["override"][0]
    canon = m["fqn"][tgt]
    # canonical prefix of every file
    prefix = {}
    for (f, l), q in m["fqn"].items():
        prefix[f] = q.rsplit(".", 1)[0] if "." in q else ""
    rules = dict(m["rules"])
    rules[tgt] = m["override"][1]
    for (f, l), alts in rules.items():
        if f not in prefix:
            continue
        owner = "root" if (f, l) == tgt else f
        for alt in alts:
            for x in alt:
                if x[0] == "n" and x[1] == tgt:
                    q = (prefix[owner] + "." if prefix[owner] else "") + x[2]
                    if q != canon:
                        return True
    return False


def duplicated_helpers(m):
    """KF-C20-2 static predicate: the same rule is used with a repetition operator
    through references whose path-qualified names differ, so parglare creates two
    equivalent helper rules (named after the reference, not the rule)."""
    prefix = {}
    for (f, l), q in m["fqn"].items():
        prefix[f] = q.rsplit(".", 1)[0] if "." in q else ""
    rules = dict(m["rules"])
    if m["override"]:
        rules[m["override"][0]] = m["override"][1]
    names = {}
    for (f, l), alts in rules.items():
        if f not in prefix:
            continue
        owner = "root" if (m["override"] and (f, l) == m["override"][0]) else f
        for alt in alts:
            for x in alt:
                if x and x[0] == "n" and x[3]:
                    kind = "opt" if x[3] == "?" else "1"
                    q = (prefix[owner] + "." if prefix[owner] else "") + x[2]
                    names.setdefault((x[1], kind), set()).add(q)
    return any(len(v) > 1 for v in names.values())


def alt_text(alt, named=False):
    if not alt:
        return "EMPTY"
    return " ".join(("a%d=" % i if named else "") + (('"%s"' % x[1]) if x[0] == "t" else (x[2] + x[3])) for i, x in enumerate(alt))


def normres(v):
    """Results with objects of rules with named matches made comparable (class names differ
    between the modular and the flattened grammar by construction)."""
    if hasattr(v, "_pg_children_names"):
        return ("obj", tuple((n, normres(getattr(v, n))) for n in v._pg_children_names))
    if isinstance(v, list):
        return [normres(x) for x in v]
    if isinstance(v, tuple):
        return tuple(normres(x) for x in v)
    return v


def file_texts(m):
    out = {}
    for f in m["files"]:
        lines = []
        for t in m["graph"][f]:
            a = m["alias"][(f, t)]
            # import paths are relative to the importing file
            rel = os.path.relpath(os.path.join("/x", m["dirs"][t], t + ".pg"), os.path.join("/x", m["dirs"][f]))
            lines.append("import '%s'%s;" % (rel, (" as " + a) if a != t else ""))
        order = m["locals"][f]
        for l in order:
            if (f, l) in m["tagged"]:
                lines.append("@tag")
            lines.append("%s: %s;" % (l, " | ".join(alt_text(a, (f, l) in m["named"]) for a in m["rules"][(f, l)])))
        if f == "root" and m["override"]:
            tgt, alts = m["override"]
            lines.append("%s: %s;" % (m["fqn"][tgt], " | ".join(alt_text(a) for a in alts)))
        if f == "root" and "keyword" in m["feats"]:
            lines.append("terminals")
            lines.append("KEYWORD: /\\w+/;")
        out[f] = "\n".join(lines) + "\n"
    return out


def flatten(m):
    """R-flat: (G for the chart or None when repetition sugar is used, flat text)."""
    rules = dict(m["rules"])
    if m["override"]:
        tgt, alts = m["override"]
        rules[tgt] = alts
    # reachable from the rules of the root file
    reach = []
    st = [k for k in rules if k[0] == "root"]
    st.sort(key=lambda k: 0 if k == ("root", "S") else 1)
    if m["override"]:
        # the overriding rule is itself a rule of the root file
        st.append(m["override"][0])
    while st:
        k = st.pop(0)
        if k in reach:
            continue
        reach.append(k)
        for alt in rules[k]:
            for x in alt:
                if x[0] == "n" and x[1] not in reach:
                    st.append(x[1])
    has_rep = any(x[0] == "n" and x[3] for k in reach for alt in rules[k] for x in alt)
    lines = []
    prods = []
    for k in reach:
        alts = []
        for alt in rules[k]:
            nm = k in m["named"]
            alts.append(" ".join(("a%d=" % i if nm else "") + (('"%s"' % x[1]) if x[0] == "t" else (flat_name(*x[1]) + x[3])) for i, x in enumerate(alt)) if alt else "EMPTY")
            prods.append((flat_name(*k), tuple(x[1] if x[0] == "t" else flat_name(*x[1]) for x in alt)))
        if k in m["tagged"]:
            lines.append("@tag")
        lines.append("%s: %s;" % (flat_name(*k), " | ".join(alts)))
    g = None if (has_rep or "keyword" in m["feats"]) else cfg.G(prods, flat_name("root", "S"))
    if "keyword" in m["feats"]:
        lines.append("terminals")
        lines.append("KEYWORD: /\\w+/;")
    return g, "\n".join(lines), reach, len(prods)


def run(ctx):
    mon = LRMonitor()
    mon.install()
    try:
        while ctx.more():
            one(ctx)
    finally:
        mon.uninstall()


def load_modular(texts, dirs=None, actions=None, ignore_case=False):
    kw = {"actions": actions} if actions else {}
    gkw = {"ignore_case": True} if ignore_case else {}
    d = tempfile.mkdtemp(prefix="pgv-c20-")
    dirs = dirs or {}
    try:
        for f, t in texts.items():
            sub = os.path.join(d, dirs.get(f, ""))
            os.makedirs(sub, exist_ok=True)
            with open(os.path.join(sub, f + ".pg"), "w") as fh:
                fh.write(t)
        with pgx.quiet():
            pg = parglare.Grammar.from_file(os.path.join(d, "root.pg"), **gkw)
            glr = parglare.GLRParser(pg, **kw)
            lr = None
            # the table cache ignores the parser kind (KF-C12-1, judged by C12): never let it interfere here
            for dp, _, fns in os.walk(d):
                for fn in fns:
                    if fn.endswith(".pgc"):
                        os.remove(os.path.join(dp, fn))
            try:
                lr = parglare.Parser(parglare.Grammar.from_file(os.path.join(d, "root.pg"), **gkw), **kw)
            except (parglare.exceptions.SRConflicts, parglare.exceptions.RRConflicts):
                pass
        return pg, glr, lr
    finally:
        shutil.rmtree(d, ignore_errors=True)


def one(ctx):
    rng = ctx.rng
    m = gen_modular(rng)
    kf = "KF-C20-1" if noncanonical_user(m) else None
    texts = file_texts(m)
    g, flat_text, reach, nprods = flatten(m)
    case0 = {"files": texts, "flat": flat_text, "shape": m["shape"], "dirs": m["dirs"], "actions": "actions" in m["feats"], "ignore_case": "ignore_case" in m["feats"]}
    try:
        with pgx.watchdog(60):
            akw = {"actions": TAG_ACTIONS} if "actions" in m["feats"] else {}
            makw = dict(akw)
            if not m["feats"] & {"actions", "named", "rep"} and rng.random() < 0.3:
                # one action per alternative (a list) for every rule, keyed by the rule's qualified
                # name in the modular grammar and by its flat name in the flattened one; several
                # files define rules with the same local name
                eff0 = dict(m["rules"])
                if m["override"]:
                    eff0[m["override"][0]] = m["override"][1]

                def lists(namer):
                    return {namer(k): [(lambda label, i: (lambda _, nodes: ("L", label, i, nodes)))(flat_name(*k), i) for i in range(len(eff0[k]))] for k in reach}

                makw = {"actions": lists(lambda k: m["fqn"][k])}
                akw = {"actions": lists(lambda k: flat_name(*k))}
                ctx.count("with_action_lists_per_alternative")
            ic = "ignore_case" in m["feats"]
            gkw = {"ignore_case": True} if ic else {}
            pg, glr, lr = load_modular(texts, m["dirs"], makw.get("actions"), ic)
            fpg = pgx.grammar(flat_text, **gkw)
            fglr = pgx.glr(fpg, **akw)
            flr = None
            try:
                flr = pgx.lr(pgx.grammar(flat_text, **gkw), **akw)
            except (parglare.exceptions.SRConflicts, parglare.exceptions.RRConflicts):
                pass
    except pgx.CaseTimeout:
        ctx.inconc("construction timeout")
        return
    except Exception as e:  # noqa: BLE001
        ctx.case((str(texts), "build"), True)
        ctx.violation("modular-grammar-does-not-load:" + type(e).__name__, case0, "%s: %s" % (type(e).__name__, str(e)[:300]), known=kf)
        return
    ctx.count("grammars")
    ctx.count("shape." + m["shape"])
    for ft in m["feats"]:
        ctx.count({"alias": "with_alias", "override": "with_override", "nested": "with_nested_reference", "rep": "with_repetition", "empty": "with_explicit_empty", "subdirs": "with_subdirectories", "keyword": "with_keyword", "actions": "with_action_names", "ignore_case": "with_ignore_case", "named": "with_named_matches", "heavy": "with_one_operator_on_most_references"}[ft])
    if (lr is None) != (flr is None):
        ctx.case((str(texts), "lr-build"), True)
        kf2 = kf
        if kf2 is None and lr is None and flr is not None and duplicated_helpers(m):
            kf2 = "KF-C20-2"
        ctx.violation("lr-construction-differs", case0, "Parser() on the modular grammar %s, on the flattened grammar %s" % ("constructs" if lr else "has conflicts", "constructs" if flr else "has conflicts"), known=kf2)
        lr = flr = None
    # --- names: each file's rules once, under the first import path ----------------
    if not m["feats"] & {"rep"}:
        ctx.count("names_compared")
        want = set(m["fqn"][k] for k in reach if not (m["override"] and k == m["override"][0]))
        if m["override"]:
            want.add(m["fqn"][m["override"][0]])
        got = set(pg.nonterminals) - {"S'"}
        if got != want:
            ctx.case((str(texts), "names"), True)
            ctx.violation("qualified-names-differ", case0, "grammar.nonterminals %s, expected %s" % (sorted(got), sorted(want)))
            return
        if len(pg.productions) - 1 != nprods:
            ctx.case((str(texts), "nprods"), True)
            ctx.violation("rules-not-contributed-once", case0, "%d productions, the flattened grammar has %d" % (len(pg.productions) - 1, nprods))
            return
    eff = dict(m["rules"])
    if m["override"]:
        eff[m["override"][0]] = m["override"][1]
    alphabet = "".join(sorted(set(x[1] for k in reach for alt in eff[k] for x in alt if x[0] == "t")))
    maxlen = 4 if ctx.tier == "quick" else 5
    if len(alphabet) > 4:
        maxlen = 3
    inputs = list(cfg.all_strings(alphabet, maxlen))
    if len(inputs) > 400:
        inputs = [w for w in inputs if len(w) <= 2] + rng.sample(inputs, 300)
    if "keyword" in m["feats"]:
        # keywords must be separated: spaced and unspaced variants
        inputs = inputs[:150] + [" ".join(w) for w in inputs[:250]] + ["".join(ch + rng.choice(["", " "]) for ch in w) for w in inputs[:150]]
    if ic:
        inputs = ["".join(ch.upper() if rng.random() < 0.5 else ch for ch in w) for w in inputs]
    for w in inputs:
        case = dict(case0, input=w)
        a = glrobs.parse_glr(glr, w)
        b = glrobs.parse_glr(fglr, w)
        want = cfg.Chart(g, w, skip=cfg.skip_none, ignore_case=ic).is_sentence() if g is not None else (b.kind == "forest")
        ctx.case((str(texts), w), want or len(w) >= 2, sample={"files": texts, "input": w, "sentence": want})
        ctx.count("inputs.language_compared")
        if a.kind == "exc":
            ctx.violation("modular-parse-raises:" + type(a.exc).__name__, case, str(a.exc)[:200], known=kf)
            return
        if (a.kind == "forest") != want:
            ctx.violation("language-differs-from-flattened", case, "modular grammar %s %r, the flattened grammar %s it" % ("accepts" if a.kind == "forest" else "rejects", w, "accepts" if want else "rejects"), known=kf)
            return
        if a.kind == "forest" and b.kind == "forest" and not a.loop and not b.loop and a.len <= 60 and b.len <= 60:
            try:
                ra = sorted(repr(normres(glr.call_actions(t))) for t in a.forest)
            except Exception as e:  # noqa: BLE001
                ctx.violation("modular-actions-raise:" + type(e).__name__, case, "call_actions on a tree of the modular grammar: %s: %s" % (type(e).__name__, str(e)[:200]), known=kf)
                return
            rb = sorted(repr(normres(fglr.call_actions(t))) for t in b.forest)
            ctx.count("inputs.results_compared")
            if set(ra) != set(rb):
                ctx.violation("results-differ-from-flattened", case, "GLR results %s vs flattened %s" % (ra[:2], rb[:2]), known=kf)
                return
        if lr is not None and flr is not None:
            try:
                ka, va = pgx.outcome(lr.parse, w)
                kb, vb = pgx.outcome(flr.parse, w)
            except (pgx.CaseTimeout, pgx.BudgetExceeded):
                continue
            if ka != kb or (ka == "ret" and repr(normres(va)) != repr(normres(vb))):
                ctx.violation("lr-results-differ-from-flattened", case, "LR %s %s vs flattened %s %s" % (ka, repr(va)[:100], kb, repr(vb)[:100]), known=kf)
                return


def replay(case, ctx):
    mon = LRMonitor()
    mon.install()
    try:
        akw = {"actions": TAG_ACTIONS} if case.get("actions") else {}
        pg, glr, lr = load_modular(case["files"], case.get("dirs"), akw.get("actions"), case.get("ignore_case", False))
        fglr = pgx.glr(pgx.grammar(case["flat"], **({"ignore_case": True} if case.get("ignore_case") else {})), **akw)
        if "input" in case:
            a = glrobs.parse_glr(glr, case["input"])
            b = glrobs.parse_glr(fglr, case["input"])
            if a.kind != b.kind:
                ctx.violation("language-differs-from-flattened", case, "modular %s, flattened %s" % (a.kind, b.kind))
            elif a.kind == "forest":
                try:
                    ra = sorted(repr(normres(glr.call_actions(t))) for t in a.forest)
                except Exception as e:  # noqa: BLE001
                    ctx.violation("modular-actions-raise:" + type(e).__name__, case, str(e)[:200])
                    return
                rb = sorted(repr(normres(fglr.call_actions(t))) for t in b.forest)
                if set(ra) != set(rb):
                    ctx.violation("results-differ-from-flattened", case, "GLR results differ")
    finally:
        mon.uninstall()
