"""Shared GLR workload: grammars x inputs for C01/C02/C03/C17."""

import itertools

from pgverif import cfg

LAYOUT_FILLERS = ["", " ", "  ", "\n", "\t ", " \n ", "\r\n", "\r"]


def grammar_stream(ctx, acyclic=False, overlap_share=0.25, tiny=False, eps_weights=(1, 1, 2, 3), corpus=True):
    """Yields (name, G, alphabet).  Corpus grammars are dealt round-robin to the
    shards, random grammars come from the shard's own rng, forever."""
    if corpus:
        for i, (name, g, al) in enumerate(cfg.CORPUS):
            if ctx.mine(i) and not (acyclic and g.cyclic()):
                yield ("corpus:" + name, g, al)
    if tiny:
        for i, g in enumerate(cfg.tiny_grammars()):
            if ctx.mine(i) and not (acyclic and g.cyclic()):
                yield ("tiny:%d" % i, g, "a")
    rng = ctx.rng
    n = 0
    while True:
        n += 1
        nnt = rng.choice([1, 2, 2, 3, 3, 3, 4])
        terms = rng.choice(["a", "ab", "ab", "ab", "abc"])
        kw = dict(nnt=nnt, terms=terms, maxalts=rng.choice([2, 3, 3]), maxlen=3, eps_weight=rng.choice(eps_weights))
        g = cfg.rand_ok_grammar(rng, acyclic=acyclic, **kw)
        if g is None:
            continue
        if rng.random() < overlap_share:
            # same grammar over an overlapping vocabulary
            names = list(g.terms)
            td = cfg.overlap_tdefs(rng, names)
            g = cfg.G(g.prods, g.start, td)
            yield ("rand-overlap:%d" % n, g, "ab")
        else:
            yield ("rand:%d" % n, g, terms)


def inputs_for(g, alphabet, maxlen, rng, extra_long=0):
    """All strings over the alphabet up to maxlen (+ a few longer random ones)."""
    for w in cfg.all_strings(alphabet, maxlen):
        yield w
    for _ in range(extra_long):
        L = rng.randint(maxlen + 1, maxlen + 4)
        yield "".join(rng.choice(alphabet) for _ in range(L))


def long_inputs(g, alphabet, rng, targets=(12, 16, 22, 30)):
    """Long inputs for grammars over one-character vocabularies: random sentences
    of growing length, each followed by a one-token mutation of itself."""
    if has_overlap(g):
        return
    for t in targets:
        s = cfg.rand_sentence(g, rng, t)
        if s is None or len(s) < 8 or len(s) > 3 * t:
            continue
        w = "".join(s)
        yield w
        k = rng.randrange(len(w))
        yield w[:k] + rng.choice(alphabet) + w[k + (1 if rng.random() < 0.7 else 0) :]


def relayout(w, rng, fillers=LAYOUT_FILLERS, density=1.0):
    """Insert layout before the first character, between characters, after the last.
    With density < 1 most gaps stay empty so that multi-character tokens survive
    (needed for vocabularies whose tokens have different lengths)."""
    out = []
    for ch in w:
        out.append(rng.choice(fillers) if (density >= 1.0 or rng.random() < density) else "")
        out.append(ch)
    out.append(rng.choice(fillers) if (density >= 1.0 or rng.random() < density) else "")
    return "".join(out)


def has_overlap(g):
    return any(g.tdefs[t].kind != "str" or g.tdefs[t].text != t or len(t) != 1 for t in g.terms)


def missing_valid_action(g, pg, table, ref=None):
    """Lock-step walk of a real table and the canonical LR(1) automaton of the
    reference grammar: the first (state, lookahead) whose canonical action the
    table lacks, as a message, or None.  For a reduced grammar every canonical
    action is used by some sentence, so a missing one means a rejected sentence."""
    from parglare.tables import ACCEPT, SHIFT

    from pgverif import pgx

    ref = ref or cfg.LR1(g, g.start)
    pkeys = pgx.prod_keys(pg)
    pindex = {k: i for i, k in enumerate(g.prods)}

    def pacts(ps):
        out = {}
        for t, al in ps.actions.items():
            tn = "$" if t.name == "STOP" else t.name
            for a in al:
                if a.action == SHIFT:
                    out.setdefault(tn, set()).add(("s",))
                elif a.action == ACCEPT:
                    out.setdefault(tn, set()).add(("acc",))
                else:
                    out.setdefault(tn, set()).add(("r", pindex.get(pkeys[a.prod.prod_id], -99)))
        return out

    seen = set()
    work = [(table.states[0], 0)]
    while work:
        ps, ls = work.pop()
        if (ps.state_id, ls) in seen:
            continue
        seen.add((ps.state_id, ls))
        pa = pacts(ps)
        for t, v in ref.acts[ls].items():
            if not v <= pa.get(t, set()):
                lack = sorted(v - pa.get(t, set()))[0]
                what = "reduction by %s: %s" % (g.prods[lack[1]][0], " ".join(g.prods[lack[1]][1]) or "EMPTY") if lack[0] == "r" else {"s": "shift", "acc": "accept"}[lack[0]]
                return "state %d on lookahead %s: the canonical LR(1) automaton has a %s here, the table has %s" % (ps.state_id, t, what, sorted(pa.get(t, set())))
        for (s0, sym), tgt in ref.trans.items():
            if s0 != ls:
                continue
            if cfg.is_nt(sym):
                nt = pg.get_nonterminal(sym)
                if nt not in ps.gotos:
                    return "state %d has no goto on %s" % (ps.state_id, sym)
                work.append((ps.gotos[nt], tgt))
            else:
                sh = [a for a in ps.actions.get(pg.get_terminal(sym), []) if a.action == SHIFT]
                if not sh:
                    return "state %d has no shift on %s" % (ps.state_id, sym)
                work.append((sh[0].state, tgt))
    return None
