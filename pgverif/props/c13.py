"""C13 - repetition / optional / separator / group / greedy sugar mean what the docs say."""

import itertools

import parglare

from pgverif import cfg, glrobs, pgx
from pgverif.mon.gss import GssMonitor
from pgverif.mon.lr import LRMonitor

ID = "C13"
LEVEL = "exploration"
RULE = (
    "cases = (sugared grammar, input): random rule shapes combining ? * + with string or rule separators, parenthesised groups, "
    "repetition of groups, nested groups, operators on terminals and nonterminals, several uses of the same base symbol; oracle = "
    "the documented plain-BNF expansion written by the harness (own helper names, own collecting actions, {nops} as documented) "
    "parsed by parglare as plain BNF: for every input over {a,b,','} up to the bound GLR acceptance, the set of results over all "
    "trees and (when no duplicate packing is involved) the number of trees must be equal, and LR construction + results must be "
    "equal. Greedy: linear templates of repetitions; the greedy grammar must accept what the non-greedy one accepts and return the "
    "single tree in which greedy repetitions are maximal. Non-trivial = input accepted by either grammar, or of length >= 2; "
    "distinct = (grammar, input)."
)
ASSUMPTIONS = [
    "plain BNF core of parglare (judged by C01/C02/C04) is used to parse the expansion",
    "KF-C13-1 / KF-C13-3 are static predicates on the grammar template plus the failure signature",
]

ALPH = "ab,"


def plan(tier):
    return {"nshards": 16, "budget_s": 40 if tier == "quick" else 400}


def required(tier):
    return {
        "nontrivial": 3000 if tier == "quick" else 30000,
        "glr.compared": 10000,
        "glr.results_compared": 3000,
        "glr.len_compared": 3000,
        "lr.compared": 5000,
        "shape.opt": 100,
        "shape.star": 100,
        "shape.plus": 100,
        "shape.sep": 100,
        "shape.group": 100,
        "shape.group_rep": 50,
        "shape.nested_group": 20,
        "shape.nonterminal_rep": 50,
        "shape.same_base_twice": 50,
        "shape.rule_with_action": 100,
        "shape.rule_in_several_definitions": 100,
        "greedy.cases": 1000,
        "greedy.single_maximal_tree": 300,
        "greedy.plain_alternative_accepted": 30,
    }


# --- sugared grammar AST -------------------------------------------------------
# elem = ("sym", name) | ("rep", base_elem, op, sep) | ("group", [ [elem,...], ... ])


def gen_elem(rng, depth, nts, stats):
    r = rng.random()
    if depth > 0 and r < 0.2:
        nalt = rng.choice([1, 2, 2])
        alts = []
        for _ in range(nalt):
            alts.append([gen_elem(rng, depth - 1, nts, stats) for _ in range(rng.choice([1, 2, 2]))])
        g = ("group", alts)
        stats.add("group")
        if depth < 2:
            stats.add("nested_group")
        if rng.random() < 0.5:
            stats.add("group_rep")
            return wrap_rep(rng, g, stats)
        return g
    name = rng.choice(["a", "a", "b", "b"] + nts)
    base = ("sym", name)
    if rng.random() < 0.55:
        if name in nts:
            stats.add("nonterminal_rep")
        return wrap_rep(rng, base, stats)
    return base


def wrap_rep(rng, base, stats):
    op = rng.choice(["?", "*", "+"])
    sep = None
    if op != "?" and rng.random() < 0.3:
        sep = rng.choice(["comma", "comma", "Sep"])
        stats.add("sep")
    stats.add({"?": "opt", "*": "star", "+": "plus"}[op])
    return ("rep", base, op, sep)


def elem_text(e):
    if e[0] == "sym":
        return e[1]
    if e[0] == "group":
        return "(" + " | ".join(" ".join(elem_text(x) for x in alt) for alt in e[1]) + ")"
    _, base, op, sep = e
    return elem_text(base) + op + ("[%s]" % sep if sep else "")


class Expander:
    """R-sugar: documented expansion with own helper names and own actions."""

    def __init__(self):
        self.rules = []
        self.actions = {}
        self.n = 0
        # "only one additional rule will be added to the grammar for all
        # instances": helpers are shared per (base, multiplicity, separator)
        self.shared = {}

    def fresh(self, kind):
        self.n += 1
        return "H%s%d" % (kind, self.n)

    def elem(self, e):
        if e[0] == "sym":
            return e[1]
        if e[0] == "group":
            name = self.fresh("g")
            alts = [" ".join(self.elem(x) for x in alt) for alt in e[1]]
            self.rules.append("%s: %s;" % (name, " | ".join(alts)))
            return name
        _, base, op, sep = e
        b = self.elem(base)
        if op == "?":
            if (b, "o") in self.shared:
                return self.shared[(b, "o")]
            name = self.fresh("o")
            self.shared[(b, "o")] = name
            self.rules.append("%s: %s | EMPTY;" % (name, b))
            self.actions[name] = [lambda _, n: n[0], lambda _, n: None]
            return name
        if (b, "p", sep) in self.shared:
            one = self.shared[(b, "p", sep)]
        else:
            one = self.fresh("p")
            self.shared[(b, "p", sep)] = one
            if sep:
                self.rules.append("%s: %s %s %s | %s;" % (one, one, sep, b, b))
                self.actions[one] = [lambda _, n: n[0] + [n[2]], lambda _, n: [n[0]]]
            else:
                self.rules.append("%s: %s %s | %s;" % (one, one, b, b))
                self.actions[one] = [lambda _, n: n[0] + [n[1]], lambda _, n: [n[0]]]
        if op == "+":
            return one
        if (b, "z", sep) in self.shared:
            return self.shared[(b, "z", sep)]
        zero = self.fresh("z")
        self.shared[(b, "z", sep)] = zero
        self.rules.append("%s: %s {nops} | EMPTY;" % (zero, one))
        self.actions[zero] = [lambda _, n: n[0], lambda _, n: []]
        return zero


PLAIN_RULES = {
    "A": ["A: a b | b;", "A: a;", "A: a A | b;", "A: b | a a;"],
    "B": ["B: b;", "B: a | b b;", "B: A b | a;"],
    "Sep": ["Sep: comma | comma comma;"],
}
TERMS = 'terminals\na: "a";\nb: "b";\ncomma: ",";'


def make_grammar(rng):
    stats = set()
    nts = rng.choice([[], ["A"], ["A", "B"]])
    nalt = rng.choice([1, 1, 2, 2, 3])
    alts = []
    for _ in range(nalt):
        alts.append([gen_elem(rng, 2, nts, stats) for _ in range(rng.choice([1, 2, 2, 3]))])
    used = set()

    def collect(e):
        if e[0] == "sym":
            used.add(e[1])
        elif e[0] == "group":
            for alt in e[1]:
                for x in alt:
                    collect(x)
        else:
            collect(e[1])
            if e[3]:
                used.add(e[3])

    for alt in alts:
        for e in alt:
            collect(e)
    reps = []

    def collect_reps(e):
        if e[0] == "rep":
            reps.append(elem_text(e[1]))
            collect_reps(e[1])
        elif e[0] == "group":
            for alt in e[1]:
                for x in alt:
                    collect_reps(x)

    for alt in alts:
        for e in alt:
            collect_reps(e)
    if len(reps) != len(set(reps)):
        stats.add("same_base_twice")
    plain = []
    if "B" in used and "B" in nts:
        bb = rng.choice(PLAIN_RULES["B"])
        plain.append(bb)
        if "A" in bb.split(":")[1]:
            used.add("A")
    if "A" in used:
        plain.append(rng.choice(PLAIN_RULES["A"]))
    if "Sep" in used:
        plain.append(PLAIN_RULES["Sep"][0])
    # a user action given in the grammar with @name belongs to the rule it is written on,
    # not to the helper rules generated for the operators and groups inside it
    head = ""
    if rng.random() < 0.3:
        head = "@wrap\n"
        stats.add("rule_with_action")
        if rng.random() < 0.5:
            plain = ["@wrap\n" + x for x in plain]
    if nalt >= 2 and not head and rng.random() < 0.4:
        # the same rule written in several definitions (groups are numbered per rule across them)
        stats.add("rule_in_several_definitions")
        sugared = "\n".join("S: " + " ".join(elem_text(e) for e in alt) + ";" for alt in alts) + "\n" + "\n".join(plain) + "\n" + TERMS
    else:
        sugared = head + "S: " + " | ".join(" ".join(elem_text(e) for e in alt) for alt in alts) + ";\n" + "\n".join(plain) + "\n" + TERMS
    ex = Expander()
    s_alts = [" ".join(ex.elem(e) for e in alt) for alt in alts]
    expanded = head + "S: " + " | ".join(s_alts) + ";\n" + "\n".join(plain + ex.rules) + "\n" + TERMS
    return sugared, expanded, ex.actions, stats


def wrap(_, nodes):
    return ("W", nodes)


USER_ACTIONS = {"wrap": wrap}


def results_of(parser, forest, limit=150):
    out = []
    for i in range(min(forest.solutions, limit)):
        out.append(parser.call_actions(forest[i]))
    return out


def drop_later_nones(v):
    """KF-C13-4 normalisation: None elements after the first position of a list."""
    if isinstance(v, list):
        return [drop_later_nones(x) for i, x in enumerate(v) if i == 0 or x is not None]
    if isinstance(v, tuple):
        # the ("W", children) wrapper of the user action: not a collected list itself
        return tuple(drop_later_nones(x) for x in v)
    return v


def has_later_none(v):
    if isinstance(v, list):
        return any(x is None for x in v[1:]) or any(has_later_none(x) for x in v)
    if isinstance(v, tuple):
        return any(has_later_none(x) for x in v)
    return False


def run(ctx):
    gmon = GssMonitor(check_closure=False)
    gmon.install()
    lmon = LRMonitor()
    lmon.install()
    try:
        n = 0
        witnessed = False
        while ctx.more():
            n += 1
            if n % 4 == 0:
                greedy_case(ctx, gmon)
            else:
                sugar_case(ctx, gmon)
            if not witnessed and ctx.shard == 0:
                witnessed = True
                witnesses(ctx)
    finally:
        gmon.uninstall()
        lmon.uninstall()


def sugar_case(ctx, gmon):
    rng = ctx.rng
    sugared, expanded, actions, stats = make_grammar(rng)
    for s in stats:
        ctx.count("shape." + s)
    try:
        with pgx.watchdog(30):
            actions = dict(actions, **USER_ACTIONS)
            gs = pgx.glr(pgx.grammar(sugared), actions=USER_ACTIONS)
            ge = pgx.glr(pgx.grammar(expanded), actions=actions)
    except pgx.CaseTimeout:
        ctx.inconc("construction timeout")
        return
    except Exception as e:  # noqa: BLE001
        ctx.count("construction_failed:" + type(e).__name__)
        ctx.seen("construction_errors", "%s: %s" % (type(e).__name__, str(e)[:100]))
        return
    # LR (default strategies): construction outcome must agree
    ls = le = None
    es = ee = None
    try:
        ls = pgx.lr(pgx.grammar(sugared), actions=USER_ACTIONS)
    except Exception as e:  # noqa: BLE001
        es = type(e).__name__
    try:
        le = pgx.lr(pgx.grammar(expanded), actions=actions)
    except Exception as e:  # noqa: BLE001
        ee = type(e).__name__
    case0 = {"sugared": sugared, "expanded": expanded}
    if es != ee:
        ctx.case((sugared, "lr-construction"), True)
        ctx.violation("lr-construction-differs", case0, "Parser() on the sugared grammar: %s, on the documented expansion: %s" % (es or "constructs", ee or "constructs"))
        ls = le = None
    maxlen = 4 if ctx.tier == "quick" else 5
    for w in cfg.all_strings(ALPH, maxlen):
        check(ctx, gmon, gs, ge, ls, le, dict(case0, input=w), w)


def check(ctx, gmon, gs, ge, ls, le, case, w):
    try:
        with pgx.watchdog(30):
            a = glrobs.parse_glr(gs, w)
            dups_a = gmon.duplicates(a.forest.result) if a.kind == "forest" else []
            b = glrobs.parse_glr(ge, w)
            dups_b = gmon.duplicates(b.forest.result) if b.kind == "forest" else []
    except (pgx.CaseTimeout, pgx.BudgetExceeded):
        ctx.inconc("timeout %r" % w)
        return
    ctx.case((case["sugared"], w), a.kind == "forest" or b.kind == "forest" or len(w) >= 2, sample={"sugared": case["sugared"], "input": w, "outcome": a.kind})
    ctx.count("glr.compared")
    if a.kind != b.kind:
        ctx.violation("language-differs", case, "sugared grammar: %s, documented expansion: %s" % (a.kind, b.kind))
        return
    if a.kind == "exc":
        ctx.violation("unexpected-exception:" + type(a.exc).__name__, case, str(a.exc)[:200])
        return
    if a.kind == "forest" and not a.loop and not b.loop:
        ra = results_of(gs, a.forest)
        rb = results_of(ge, b.forest)
        ctx.count("glr.results_compared")
        sa, sb = set(map(repr, ra)), set(map(repr, rb))
        if a.len <= 150 and b.len <= 150 and sa != sb:
            known = None
            if any(has_later_none(x) for x in rb) and set(repr(drop_later_nones(x)) for x in ra) == set(repr(drop_later_nones(x)) for x in rb):
                known = "KF-C13-4"
            ctx.violation("results-differ", case, "sugared results %s, expansion results %s" % (sorted(sa)[:4], sorted(sb)[:4]), known=known)
            return
        if not dups_a and not dups_b:
            ctx.count("glr.len_compared")
            if a.len != b.len:
                ctx.violation("tree-count-differs", case, "sugared grammar gives %s trees, expansion %s" % (a.len, b.len))
                return
    if ls is not None and le is not None:
        try:
            with pgx.watchdog(30):
                ka, va = pgx.outcome(ls.parse, w)
                kb, vb = pgx.outcome(le.parse, w)
        except (pgx.CaseTimeout, pgx.BudgetExceeded):
            ctx.count("lr_timeout_or_diverged")
            return
        ctx.count("lr.compared")
        if ka != kb or (ka == "ret" and repr(va) != repr(vb)):
            known = None
            if ka == kb == "ret" and has_later_none(vb) and repr(drop_later_nones(va)) == repr(drop_later_nones(vb)):
                known = "KF-C13-4"
            ctx.violation("lr-differs", case, "LR on sugared: %s %s, on expansion: %s %s" % (ka, repr(va)[:150], kb, repr(vb)[:150]), known=known)


# --- greedy ---------------------------------------------------------------------


def greedy_template(rng):
    """Linear sequence of elements over terminals; each (term, op, greedy, sep)."""
    n = rng.randint(2, 4)
    elems = []
    for _ in range(n):
        t = rng.choice(["a", "a", "a", "b"])
        op = rng.choice(["", "?", "*", "*", "+"])
        greedy = op != "" and rng.random() < 0.6
        sep = "comma" if op in ("*", "+") and rng.random() < 0.15 else None
        elems.append((t, op, greedy, sep))
    if rng.random() < 0.15:
        # the same symbol repeated greedily with and without a separator (helpers named per
        # symbol, multiplicity *and* separator)
        op = rng.choice(["+", "+", "*"])
        elems = [("a", op, True, None), ("b", "", False, None), ("a", op, True, "comma")]
        if rng.random() < 0.5:
            elems.reverse()
    return elems


def template_text(elems, greedy, alt=None):
    parts = []
    for t, op, g, sep in elems:
        parts.append("%s%s%s%s" % (t, op, "!" if (g and greedy and op) else "", "[%s]" % sep if sep else ""))
    if alt:
        # a second, plain alternative sharing a prefix with the template; it ends in
        # a terminal of its own, so it matches exactly one input
        return "S: %s | D;\nD: %s;\n%s\ne: \"e\";" % (" ".join(parts), " ".join(alt), TERMS)
    return "S: " + " ".join(parts) + ";\n" + TERMS


def shares_helper(elems):
    """KF-C13-1 static predicate: helper rules are looked up by a name that does
    not encode greediness, so some use gets a helper of the other kind: an
    optional or zero-or-more helper first created with the other greediness, or
    a greedy '+' whose _1 rule already exists (then the plain rule is used)."""
    made = {}
    for t, op, g, sep in elems:
        if not op:
            continue
        if op == "?":
            k = (t, "opt")
            if k in made and made[k] != g:
                return True
            made.setdefault(k, g)
        elif op == "*":
            k = (t, "0", sep)
            if k in made and made[k] != g:
                return True
            made.setdefault(k, g)
            made.setdefault((t, "1", sep), False)
        else:
            k = (t, "1", sep)
            if g and k in made:
                return True
            made.setdefault(k, g)
    return False


class PossessiveModel:
    """Executable model of the KF-C13-3 mechanism, sharing no code with parglare:
    the documented expansion of the template, a reference LALR(1) table, the
    reduce by a helper production that carries the greedy mark removed from
    every cell that also holds a shift, and a nondeterministic LR recognizer.
    A sentence the greedy grammar rejects is attributed to the recorded
    finding only if this model rejects it too."""

    def __init__(self, elems, alt):
        prods = []
        right = set()
        made = set()

        def add(lhs, rhs, ra=False):
            prods.append((lhs, tuple(rhs)))
            if ra:
                right.add(len(prods) - 1)

        body = []
        for t, op, g, sep in elems:
            if not op:
                body.append(t)
            elif op == "?":
                n = "O" + t
                if n not in made:
                    made.add(n)
                    add(n, [t])
                    add(n, [], g)
                body.append(n)
            else:
                one = "P" + t + ("s" if sep else "")
                if one not in made:
                    made.add(one)
                    add(one, [one] + (["comma"] if sep else []) + [t])
                    add(one, [t])
                if op == "+":
                    if g:
                        n = one + "g"
                        if n not in made:
                            made.add(n)
                            add(n, [one], True)
                        body.append(n)
                    else:
                        body.append(one)
                else:
                    n = "Z" + t + ("s" if sep else "")
                    if n not in made:
                        made.add(n)
                        add(n, [one], g)
                        add(n, [], g)
                    body.append(n)
        add("S", body)
        if alt:
            add("S", ["D"])
            add("D", list(alt))
        self.prods = prods
        lr = cfg.LR1(cfg.G(prods, "S"))
        core = [lr.core(x) for x in lr.states]
        self.start = core[0]
        self.trans = {(core[i], sym): core[j] for (i, sym), j in lr.trans.items()}
        self.acts = {}
        self.removed = 0
        for c, m in lr.lalr_actions().items():
            self.acts[c] = {}
            for tok, v in m.items():
                v = set(v)
                if ("s",) in v or ("acc",) in v:
                    drop = {x for x in v if x[0] == "r" and x[1] in right}
                    self.removed += len(drop)
                    v -= drop
                self.acts[c][tok] = v

    def accepts(self, w):
        toks = [{",": "comma"}.get(ch, ch) for ch in w] + ["$"]
        seen = set()
        st = [((self.start,), 0)]
        while st:
            cf = st.pop()
            if cf in seen:
                continue
            seen.add(cf)
            stack, pos = cf
            tok = toks[pos]
            for a in self.acts[stack[-1]].get(tok, ()):
                if a[0] == "acc":
                    return True
                if a[0] == "s":
                    st.append((stack + (self.trans[(stack[-1], tok)],), pos + 1))
                else:
                    lhs, rhs = self.prods[a[1]]
                    base = stack[: len(stack) - len(rhs)]
                    st.append((base + (self.trans[(base[-1], lhs)],), pos))
        return False


def consumed(elems, result):
    """characters consumed by each element given the parse result list."""
    out = []
    res = result if len(elems) > 1 else [result]
    for (t, op, g, sep), r in zip(elems, res):
        if op == "":
            out.append(1)
        elif op == "?":
            out.append(0 if r is None else 1)
        else:
            k = len(r)
            out.append(k + (max(0, k - 1) if sep else 0))
    return out


def greedy_case(ctx, gmon):
    rng = ctx.rng
    elems = greedy_template(rng)
    if not any(g for _, _, g, _ in elems):
        return
    alt = None
    if rng.random() < 0.35:
        alt = "".join(rng.choice("ab") for _ in range(rng.randint(1, 3))) + "e"
        ctx.count("greedy.with_plain_alternative")
    tg = template_text(elems, True, alt)
    tn = template_text(elems, False, alt)
    try:
        pgreedy = pgx.glr(pgx.grammar(tg))
        pplain = pgx.glr(pgx.grammar(tn))
    except Exception as e:  # noqa: BLE001
        ctx.count("greedy.construction_failed:" + type(e).__name__)
        return
    shared = shares_helper(elems)
    model = None if shared else PossessiveModel(elems, alt)
    if alt:
        # the plain alternative is outside the greedy operators' reach: same outcome, same result
        for w in [alt, alt[:-1], alt + "e", "e", alt[:-1] + "a" + "e", alt[1:]]:
            a = glrobs.parse_glr(pgreedy, w)
            b = glrobs.parse_glr(pplain, w)
            case = {"greedy": tg, "plain": tn, "input": w, "elems": [list(e) for e in elems], "alt": alt}
            if "e" not in w:
                continue
            ctx.count("greedy.plain_alternative_inputs")
            if (a.kind == "forest") != (b.kind == "forest"):
                ctx.violation("greedy-changes-plain-alternative", case, "input of the plain alternative: greedy grammar %s, non-greedy grammar %s" % (a.kind, b.kind))
            elif a.kind == "forest":
                ra = [pgreedy.call_actions(a.forest[i]) for i in range(min(a.len, 20))]
                rb = [pplain.call_actions(b.forest[i]) for i in range(min(b.len, 20))]
                if sorted(map(repr, ra)) != sorted(map(repr, rb)):
                    ctx.violation("greedy-changes-plain-alternative", case, "input of the plain alternative: greedy grammar gives %s, non-greedy %s" % (ra[:2], rb[:2]))
                ctx.count("greedy.plain_alternative_accepted")
    for w in cfg.all_strings(ALPH, 5 if ctx.tier == "quick" else 6):
        a = glrobs.parse_glr(pgreedy, w)
        b = glrobs.parse_glr(pplain, w)
        case = {"greedy": tg, "plain": tn, "input": w, "elems": [list(e) for e in elems], "alt": alt}
        ctx.case((tg, w), b.kind == "forest", sample={"greedy": tg, "input": w})
        ctx.count("greedy.cases")
        if b.kind != "forest":
            if a.kind == "forest":
                ctx.violation("greedy-accepts-more", case, "greedy grammar accepts an input the non-greedy grammar rejects")
            continue
        res_b = []
        for i in range(min(b.len, 200)):
            res_b.append(pplain.call_actions(b.forest[i]))
        # the tree in which greedy repetitions consumed as much as possible (left to right)
        def keyf(r):
            c = consumed(elems, r)
            return tuple(c[i] if elems[i][2] else 0 for i in range(len(elems)))

        distinct = []
        for r in res_b:
            if r not in distinct:
                distinct.append(r)
        best_key = max(keyf(r) for r in distinct)
        maximal = [r for r in distinct if keyf(r) == best_key]
        # possessive semantics (KF-C13-3): some greedy repetition of the maximal tree could locally go on
        possessive = False
        for r in maximal:
            c = consumed(elems, r)
            pos = 0
            for i, (t, op, g, sep) in enumerate(elems):
                pos += c[i]
                if not op or pos >= len(w):
                    continue
                # the decision "stop element i here" competes with a greedy helper
                # when element i is greedy itself, or when the elements right
                # after it are greedy ones that matched nothing (their empty
                # production carries the shift preference)
                j = i + 1
                next_greedy_empty = False
                while j < len(elems) and elems[j][1] in ("*", "?") and c[j] == 0:
                    if elems[j][2]:
                        next_greedy_empty = True
                    j += 1
                if not (g or next_greedy_empty):
                    continue
                nxt = w[pos]
                cont = (nxt == "," and sep and c[i] > 0) or (nxt == t and (not sep or c[i] == 0))
                if op == "?" and c[i] == 1:
                    cont = False
                if cont:
                    possessive = True
        # the maximal tree is well defined (and reachable by a left-to-right
        # preference) only if no non-greedy variable-length element precedes a greedy one
        last_greedy = max(i for i, e in enumerate(elems) if e[2] and e[1])
        judged = all(e[2] for e in elems[:last_greedy] if e[1])
        known = None
        if shared:
            known = "KF-C13-1"
        elif possessive:
            known = "KF-C13-3"
        if model is not None:
            m_acc = model.accepts(w)
            ctx.count("greedy.model_" + ("accepts" if m_acc else "rejects_sentence"))
            if a.kind != "forest":
                # a rejection is attributed only if the static shift preference alone explains it
                known = None if m_acc else "KF-C13-3"
            elif a.kind == "forest" and not m_acc:
                ctx.count("greedy.model_rejects_but_accepted")
        if a.kind != "forest":
            ctx.violation("greedy-rejects-sentence", case, "greedy grammar rejects an input the non-greedy grammar accepts (%d trees); maximal tree %s" % (b.len, maximal[:1]), known=known)
            continue
        res_a = []
        for i in range(min(a.len, 50)):
            r = pgreedy.call_actions(a.forest[i])
            if r not in res_a:
                res_a.append(r)
        if not judged:
            ctx.count("greedy.not_judged_greedy_after_non_greedy")
            if not set(map(repr, res_a)) <= set(map(repr, distinct)):
                ctx.violation("greedy-invents-tree", case, "greedy grammar gives %s not among the non-greedy trees" % res_a[:3], known=known)
            continue
        if len(maximal) == 1 and len(distinct) > 1:
            if res_a != maximal:
                ctx.violation("greedy-not-single-maximal-tree", case, "greedy grammar gives %s, the maximal tree is %s" % (res_a[:3], maximal), known=known)
                continue
            ctx.count("greedy.single_maximal_tree")
        else:
            if not set(map(repr, res_a)) <= set(map(repr, distinct)):
                ctx.violation("greedy-invents-tree", case, "greedy grammar gives %s not among the non-greedy trees" % res_a[:3], known=known)


def witnesses(ctx):
    """Canonical witnesses of the recorded findings of this property."""
    # KF-C13-2: user rule named like a generated helper
    try:
        p = pgx.glr(pgx.grammar('S: a+ a_1;\na_1: "x";\nterminals\na: "a";'))
        o = glrobs.parse_glr(p, "aax")
        if o.kind != "forest":
            ctx.violation("helper-name-collision", {"grammar": 'S: a+ a_1; a_1: "x";', "input": "aax"}, "user rule a_1 is taken for the helper of a+: 'aax' rejected", known="KF-C13-2")
    except Exception as e:  # noqa: BLE001
        ctx.violation("helper-name-collision", {"grammar": 'S: a+ a_1; a_1: "x";'}, "user rule a_1 collides with the helper of a+: %s" % type(e).__name__, known="KF-C13-2")


def replay(case, ctx):
    gmon = GssMonitor(check_closure=False)
    gmon.install()
    lmon = LRMonitor()
    lmon.install()
    try:
        if "sugared" in case and "input" in case:
            # the expansion's actions are rebuilt by re-deriving them from rule names
            actions = rebuild_actions(case["expanded"])
            actions.update(USER_ACTIONS)
            gs = pgx.glr(pgx.grammar(case["sugared"]), actions=USER_ACTIONS)
            ge = pgx.glr(pgx.grammar(case["expanded"]), actions=actions)
            ls = le = None
            try:
                ls = pgx.lr(pgx.grammar(case["sugared"]), actions=USER_ACTIONS)
                le = pgx.lr(pgx.grammar(case["expanded"]), actions=actions)
            except Exception:  # noqa: BLE001
                ls = le = None
            check(ctx, gmon, gs, ge, ls, le, case, case["input"])
    finally:
        gmon.uninstall()
        lmon.uninstall()


def rebuild_actions(expanded):
    acts = {}
    for line in expanded.split("\n"):
        if not line.startswith("H"):
            continue
        name, body = line.split(":", 1)
        kind = name[1]
        if kind == "o":
            acts[name] = [lambda _, n: n[0], lambda _, n: None]
        elif kind == "z":
            acts[name] = [lambda _, n: n[0], lambda _, n: []]
        elif kind == "p":
            first = body.split("|")[0].split()
            if len(first) == 3:
                acts[name] = [lambda _, n: n[0] + [n[2]], lambda _, n: [n[0]]]
            else:
                acts[name] = [lambda _, n: n[0] + [n[1]], lambda _, n: [n[0]]]
    return acts
