"""C10 - rejections are always SyntaxError at the first offending token."""

import os
import re

import parglare

from pgverif import cfg, findings, glrobs, pgx
from pgverif.mon.gss import GssMonitor
from pgverif.mon.lr import Diverged, LRMonitor
from pgverif.props import glrwork

ID = "C10"
LEVEL = "exploration"
RULE = (
    "cases = (productive grammar, parser configuration, non-sentence): corpus + random grammars x all non-sentences over the token "
    "alphabet up to the bound incl. the empty string, half with multi-line layout injected / trailing layout, plus list (non-string) "
    "inputs with custom recognizers (ws=None); configurations GLR x {LALR,SLR}, LR strategies off x {LALR,SLR} (judged fully when the "
    "table is deterministic), LR with default strategies (exception type only). Oracle = scannerless Earley recogniser: expected "
    "position = farthest position reached by a viable prefix after layout skipping, line/column recomputed, 'end of file' iff "
    "position == len(input), str(error) must render, GLR symbols_expected == terminals the Earley items expect there (STOP not "
    "compared). Non-trivial = non-sentence of >= 1 token; distinct = (grammar, configuration, input)."
)
ASSUMPTIONS = [
    "Earley recogniser (pgverif/cfg.py) defines viable prefixes; vocabularies are non-overlapping so that token boundaries are unique",
    "STOP is not compared in symbols_expected (GLR never lists it, LR does; it is not a terminal that comes next in the input)",
]


def plan(tier):
    return {"nshards": 16, "budget_s": 40 if tier == "quick" else 420}


def required(tier):
    return {
        "nontrivial": 5000 if tier == "quick" else 50000,
        "glr.errors_judged": 10000,
        "glr.expected_compared": 10000,
        "lr.det_errors_judged": 1000,
        "lr.resolved_errors_seen": 3000,
        "input.empty": 200,
        "input.multiline": 2000,
        "input.trailing_layout": 500,
        "input.list": 200,
        "message.eof": 1000,
        "message.not_eof": 5000,
        "rendered": 10000,
        "lr.disambiguation_errors_located": 200,
        "config.newline_is_not_layout": 50,
        "with_start_position": 1000,
        "rendered.excerpt_checked": 5000,
        "via_parse_file": 300,
    }


ML_FILLERS = ["", " ", "\n", " \n ", "\n\n", "\t", "\r\n"]


def line_col(inp, pos):
    line = inp[:pos].count("\n") + 1
    last = inp.rfind("\n", 0, pos)
    return line, pos - last - 1


def run(ctx):
    gmon = GssMonitor(check_closure=False)
    gmon.install()
    lmon = LRMonitor(record_events=True)
    lmon.install()
    maxlen = 5 if ctx.tier == "quick" else 6
    try:
        n = 0
        for name, g, alphabet in glrwork.grammar_stream(ctx, overlap_share=0.0):
            if not ctx.more():
                break
            one_grammar(ctx, gmon, g, alphabet, maxlen)
            n += 1
            del lmon.events[:]
            if n % 4 == 0:
                list_inputs(ctx, g, alphabet)
            if n % 3 == 0:
                ambiguous_terminals(ctx, lmon, g)
    finally:
        gmon.uninstall()
        lmon.uninstall()


def skip_blank(s, p):
    return cfg.skip_ws(s, p, " \t")


def build_parsers(text, ws=None):
    out = []
    wskw = {} if ws is None else {"ws": ws}
    for tables in ("LALR", "SLR"):
        tb = pgx.LALR if tables == "LALR" else pgx.SLR
        try:
            out.append(("GLR-" + tables, "glr", pgx.glr(pgx.grammar(text), tables=tb, **wskw)))
        except Exception:  # noqa: BLE001
            pass
        try:
            p = pgx.lr(pgx.grammar(text), tables=tb, prefer_shifts=False, prefer_shifts_over_empty=False, **wskw)
            det = all(len(a) == 1 for s in p.table.states for a in s.actions.values())
            out.append(("LR-%s-off" % tables, "lrdet" if det else "lrres", p))
        except Exception:  # noqa: BLE001
            pass
        try:
            p = pgx.lr(pgx.grammar(text), tables=tb, **wskw)
            out.append(("LR-%s-default" % tables, "lrres", p))
        except Exception:  # noqa: BLE001
            pass
    return out


def one_grammar(ctx, gmon, g, alphabet, maxlen):
    text = g.text(inline=ctx.rng.random() < 0.3)
    # a quarter of the grammars run with ws=" \t": newlines are then not layout, so errors land on them
    blank_only = ctx.rng.random() < 0.25
    skip = skip_blank if blank_only else cfg.skip_ws
    if blank_only:
        ctx.count("config.newline_is_not_layout")
    try:
        with pgx.watchdog(30):
            parsers = build_parsers(text, " \t" if blank_only else None)
    except pgx.CaseTimeout:
        ctx.inconc("construction timeout %r" % text)
        return
    if len(alphabet) >= 3 and maxlen > 4:
        maxlen = 4
    case0 = {"grammar": text, "g": g.to_json(), "blank_only": blank_only}
    for w in cfg.all_strings(alphabet, maxlen):
        r = ctx.rng.random()
        if r < 0.45:
            inp = glrwork.relayout(w, ctx.rng, ML_FILLERS)
        elif r < 0.55:
            inp = w + ctx.rng.choice([" ", "\n", " \n"])
        else:
            inp = w
        e = cfg.Earley(g, inp, skip=skip)
        if e.accepted:
            continue
        if not inp:
            ctx.count("input.empty")
        if "\n" in inp:
            ctx.count("input.multiline")
        if inp and inp[-1] in cfg.WS:
            ctx.count("input.trailing_layout")
        for name, kind, parser in parsers:
            check(ctx, gmon, g, dict(case0, input=inp, config=name), name, kind, parser, inp, e)
            r = ctx.rng.random()
            if r < 0.12:
                # parse(text, position=k): everything reported stays absolute in the whole text
                pre = ctx.rng.choice(PREFIXES)
                check(ctx, gmon, g, dict(case0, input=inp, config=name, prefix=pre), name, kind, parser, inp, e, prefix=pre)
            elif r < 0.16 and "\r" not in inp:
                # (parse_file reads in text mode: carriage returns would be translated)
                check(ctx, gmon, g, dict(case0, input=inp, config=name, via_file=True), name, kind, parser, inp, e, via_file=True)


PREFIXES = ["#", "## ", "#\n", "x\n\n y", "\n", "  "]
_TMP = []


def tmp_file(text):
    if not _TMP:
        import atexit
        import shutil
        import tempfile

        d = tempfile.mkdtemp(prefix="pgv-c10-")
        atexit.register(shutil.rmtree, d, True)
        _TMP.append(d)
    path = os.path.join(_TMP[0], "input.txt")
    with open(path, "w", encoding="utf-8", newline="") as f:
        f.write(text)
    return path


EXCERPT_LINE = re.compile(r"^\s*(\d+) \|(?: (.*))?$")
CARET_LINE = re.compile(r"^\s*\| ?(\s*)\^+")


def excerpt_mismatch(msg, inp, loc):
    """The rendered error shows source lines ('  n | text') and a caret line under the last
    of them.  What it shows must be the reported line and column: returns a description of
    the mismatch, '' when consistent, None when the text has no such excerpt."""
    lines = msg.split("\n")
    for i, ln in enumerate(lines):
        m = CARET_LINE.match(ln)
        if not m or i == 0:
            continue
        x = EXCERPT_LINE.match(lines[i - 1])
        if not x:
            return None
        shown_no, shown_text, caret_col = int(x.group(1)), x.group(2) or "", len(m.group(1))
        src = inp.split("\n")
        if not (isinstance(loc.line, int) and isinstance(loc.column, int) and 1 <= loc.line <= len(src)):
            return None
        want_text = src[loc.line - 1].rstrip("\r")
        if shown_no != loc.line:
            return "the error is reported at line %d column %d, the excerpt puts the caret under line %d (%r)" % (loc.line, loc.column, shown_no, shown_text)
        if shown_text != want_text:
            return "the excerpt shows %r as line %d, the input's line %d is %r" % (shown_text, shown_no, loc.line, want_text)
        if caret_col != loc.column:
            return "the error is reported at column %d, the caret stands at column %d" % (loc.column, caret_col)
        return ""
    return None


def check(ctx, gmon, g, case, name, kind, parser, inp, e, prefix="", via_file=False):
    key = (case["grammar"], name, str(inp), prefix, via_file)
    want_pos = e.farthest + len(prefix)
    kw = {"position": len(prefix)} if prefix else {}
    inp = prefix + inp
    fn = parser.parse
    arg = inp
    if via_file:
        arg = tmp_file(inp)
        fn = parser.parse_file
    try:
        with pgx.watchdog(30):
            if kind == "glr":
                o = glrobs.parse_glr(parser, inp, **kw) if not via_file else glrobs.parse_glr(PF(parser), arg)
                okind, err = o.kind, (o.err if o.kind == "syntax" else o.exc)
            else:
                okind, err = pgx.outcome(fn, arg, **kw)
                if okind == "ret":
                    okind = "forest"
    except pgx.CaseTimeout:
        ctx.inconc("timeout %r %r" % (case["grammar"], inp))
        return
    except Diverged as ex:
        ctx.case(key, True)
        if kind == "lrres" and (g.cyclic() or g.left_rec(hidden=True) or g.nullable()):
            ctx.violation("lr-diverges", case, "LR parser with resolved conflicts does not terminate on a non-sentence: %s" % ex, known="KF-C11-1")
        else:
            ctx.violation("parser-diverges", case, "%s does not terminate on a non-sentence: %s" % (name, ex))
        return
    except pgx.BudgetExceeded as ex:
        ctx.case(key, True)
        ctx.violation("parser-diverges", case, "%s: %s" % (name, ex))
        return
    ctx.case(key, len(str(inp).strip()) >= 1 if isinstance(inp, str) else len(inp) >= 1, sample={"grammar": case["grammar"], "config": name, "input": inp, "expected_position": want_pos})
    if okind == "forest":
        if kind == "lrres":
            ctx.count("lr.resolved_accepts_nonsentence_not_judged_here")  # judged by C04 (soundness)
            return
        ctx.violation("accepts-nonsentence", case, "%s accepted a non-sentence" % name)
        return
    if okind == "exc":
        if kind == "lrres" and isinstance(err, parglare.DisambiguationError):
            ctx.count("lr.resolved_disambiguation_error")
            return
        ctx.violation("not-a-syntax-error:" + type(err).__name__, case, "%s raised %s: %s" % (name, type(err).__name__, str(err)[:200]))
        return
    # SyntaxError
    try:
        msg = str(err)
        ctx.count("rendered")
    except Exception as ex:  # noqa: BLE001
        ctx.violation("error-rendering-fails:" + type(ex).__name__, case, "str(error) raised %s: %s" % (type(ex).__name__, ex))
        return
    if kind == "lrres":
        ctx.count("lr.resolved_errors_seen")
        return
    loc = err.location
    pos = loc.start_position
    if prefix:
        ctx.count("with_start_position")
    if via_file:
        ctx.count("via_parse_file")
        if loc.file_name != arg:
            ctx.violation("wrong-file-name", case, "parse_file(%r): location.file_name is %r" % (arg, loc.file_name))
            return
        if arg not in msg:
            ctx.violation("wrong-file-name", case, "parse_file(%r): the file name is not in the rendered error %r" % (arg, msg[:120]))
            return
    if pos != want_pos:
        known = None
        if kind == "glr":
            known = reattribute(gmon, g, parser, inp, **kw)
        ctx.violation("wrong-error-position", case, "%s reports position %s, the first offending token starts at %s" % (name, pos, want_pos), known=known)
        return
    ctx.count("glr.errors_judged" if kind == "glr" else "lr.det_errors_judged")
    if isinstance(inp, str):
        wl, wc = line_col(inp, want_pos)
        if (loc.line, loc.column) != (wl, wc):
            ctx.violation("wrong-line-column", case, "reported %s:%s, position %d is %d:%d" % (loc.line, loc.column, want_pos, wl, wc))
            return
    if isinstance(inp, str) and not via_file and loc.start_position is not None and loc.start_position < len(inp):
        # (at the end of the input the excerpt shows the last line there is, which after a
        # trailing newline is not the - empty - line the position belongs to: not judged)
        bad = excerpt_mismatch(msg, inp, loc)
        if bad:
            ctx.violation("rendered-excerpt-does-not-show-the-position", case, bad)
            return
        if bad is not None:
            ctx.count("rendered.excerpt_checked")
    eof = want_pos == len(inp)
    says_eof = "end of file" in err.message
    ctx.count("message.eof" if eof else "message.not_eof")
    if eof != says_eof:
        ctx.violation("end-of-file-message", case, "position %d of %d, message %r" % (want_pos, len(inp), err.message))
        return
    if kind == "glr":
        got = set(s.name for s in err.symbols_expected) - {"STOP"}
        want = e.expected_at(e.farthest) - {"STOP"}
        ctx.count("glr.expected_compared")
        if got != want:
            known = reattribute(gmon, g, parser, inp, **kw)
            ctx.violation("wrong-symbols-expected", case, "symbols_expected %s, terminals that can come next %s" % (sorted(got), sorted(want)), known=known)


class PF:
    """parse_file through the parse_glr observer."""

    def __init__(self, parser):
        self.parser = parser

    def parse(self, path):
        return self.parser.parse_file(path)


def reattribute(gmon, g, parser, inp, **kw):
    """A wrong position/expected set of the GLR parser is the recorded lost
    derivation mechanism only if the closure monitor says so for this parse."""
    gmon.do_closure = True
    try:
        with pgx.watchdog(30):
            glrobs.parse_glr(parser, inp, **kw)
        return findings.lost_derivations_known(g, gmon)
    except (pgx.CaseTimeout, pgx.BudgetExceeded):
        return None
    finally:
        gmon.do_closure = False


# --- lexically ambiguous terminals under LR ---------------------------------


def ambiguous_terminals(ctx, lmon, g):
    """Same grammar over a vocabulary in which two terminals match the same text:
    the LR parser may only fail with SyntaxError or with DisambiguationError
    located at the ambiguous token."""
    if len(g.terms) < 2:
        return
    td = dict(g.tdefs)
    a, b = g.terms[0], g.terms[1]
    td[a] = cfg.TDef("re", "x+")
    td[b] = cfg.TDef("re", "x+|y")
    for t in g.terms[2:]:
        td[t] = cfg.TDef("str", "z")
    g2 = cfg.G(g.prods, g.start, td)
    text = g2.text()
    try:
        lr = pgx.lr(pgx.grammar(text))
    except Exception:  # noqa: BLE001
        return
    for w in cfg.all_strings("xyz", 3):
        inp = glrwork.relayout(w, ctx.rng, ML_FILLERS)
        del lmon.events[:]
        try:
            with pgx.watchdog(20):
                kind, err = pgx.outcome(lr.parse, inp)
        except (pgx.CaseTimeout, pgx.BudgetExceeded):
            continue
        if kind != "exc":
            continue
        case = {"grammar": text, "g": g2.to_json(), "input": inp, "config": "LR-default-ambiguous-terminals", "list": True}
        ctx.case((text, "ambterm", inp), True, sample={"grammar": text, "input": inp, "config": "LR ambiguous terminals"})
        if not isinstance(err, parglare.DisambiguationError):
            ctx.violation("not-a-syntax-error:" + type(err).__name__, case, "LR raised %s: %s" % (type(err).__name__, str(err)[:200]))
            continue
        ctx.count("lr.disambiguation_errors_located")
        evs = [e for e in lmon.events if e[0] is lr]
        want = evs[-1][2] if evs else None
        pos = err.location.start_position
        try:
            str(err)
        except Exception as ex:  # noqa: BLE001
            ctx.violation("error-rendering-fails:" + type(ex).__name__, case, "str(DisambiguationError) raised %s" % ex)
            continue
        if want is not None and pos != want:
            ctx.violation("disambiguation-error-not-at-ambiguous-token", case, "DisambiguationError located at %s, the ambiguous tokens %s start at %s" % (pos, [t.value for t in err.tokens], want))
            continue
        wl, wc = line_col(inp, want)
        if (err.location.line, err.location.column) != (wl, wc):
            ctx.violation("wrong-line-column", case, "DisambiguationError reported %s:%s, position %d is %d:%d" % (err.location.line, err.location.column, want, wl, wc))


# --- list (non string) inputs --------------------------------------------


def list_inputs(ctx, g, alphabet):
    """Same grammar, terminals recognised on a list of Python objects."""
    lines = []
    for n in g.order():
        alts = [" ".join(r) if r else "EMPTY" for _, r in g.by[n]]
        lines.append("%s: %s;" % (n, " | ".join(alts)))
    lines.append("terminals")
    for t in g.terms:
        lines.append("%s: ;" % t)
    text = "\n".join(lines)

    def mk(t):
        def rec(inp, pos):
            if inp[pos] == t:
                return inp[pos : pos + 1]
            return None

        return rec

    recs = {t: mk(t) for t in g.terms}
    try:
        glr = pgx.glr(pgx.grammar(text, recognizers=recs), ws=None)
    except Exception as ex:  # noqa: BLE001
        ctx.count("list.construction_failed:" + type(ex).__name__)
        return
    # token-level grammar for the oracle: every terminal is its own one-symbol token
    for w in cfg.all_strings(alphabet, 3):
        e = cfg.Earley(g, w, skip=cfg.skip_none)
        if e.accepted:
            continue
        inp = list(w)
        case = {"grammar": text, "g": g.to_json(), "input": inp, "config": "GLR-list", "list": True}
        ctx.count("input.list")
        o = glrobs.parse_glr(glr, inp)
        ctx.case((text, "list", w), len(w) >= 1, sample={"grammar": text, "input": inp, "config": "GLR-list"})
        if o.kind != "syntax":
            ctx.violation("list-input-not-a-syntax-error", case, "%s %s" % (o.kind, o.exc))
            continue
        try:
            str(o.err)
            ctx.count("rendered")
        except Exception as ex:  # noqa: BLE001
            ctx.violation("error-rendering-fails:" + type(ex).__name__, case, "str(error) on a list input raised %s: %s" % (type(ex).__name__, ex))
            continue
        if o.err.location.start_position != e.farthest:
            ctx.violation("wrong-error-position", case, "list input: position %s, expected %s" % (o.err.location.start_position, e.farthest))
        says_eof = "end of file" in o.err.message
        if says_eof != (e.farthest == len(inp)):
            ctx.violation("end-of-file-message", case, "list input: %r at %d of %d" % (o.err.message, e.farthest, len(inp)))


def replay(case, ctx):
    g = cfg.G.from_json(case["g"])
    if case.get("list"):
        return
    gmon = GssMonitor(check_closure=False)
    gmon.install()
    lmon = LRMonitor()
    lmon.install()
    try:
        bo = case.get("blank_only", False)
        for name, kind, parser in build_parsers(case["grammar"], " \t" if bo else None):
            if name == case["config"]:
                check(ctx, gmon, g, case, name, kind, parser, case["input"], cfg.Earley(g, case["input"], skip=skip_blank if bo else cfg.skip_ws), prefix=case.get("prefix", ""), via_file=case.get("via_file", False))
    finally:
        gmon.uninstall()
        lmon.uninstall()
