"""C08 - parse trees are positionally faithful and lossless."""

import os

import parglare

from pgverif import cfg, glrobs, pgx
from pgverif.mon.lr import LRMonitor
from pgverif.props import glrwork

ID = "C08"
LEVEL = "exploration"
RULE = (
    "cases = (grammar, parser kind LR|GLR, layout kind ws|LAYOUT rule, ignore_case, sentence with injected layout): random acyclic "
    "grammars with empty alternatives at the beginning / middle / end of rules (25% over overlapping vocabularies), all sentences "
    "up to the bound, layout (spaces, newlines, tabs; line and nested block comments for LAYOUT grammars) injected before, between "
    "and after tokens; every node of every tree (LR build_tree, up to 40 trees per GLR forest, get_first_tree) is walked: integer "
    "positions in bounds, leaf value == input[start:end], siblings ordered and disjoint, child within parent, leaves' "
    "layout_content+value reproduce the input up to trailing layout; positions seen by actions (context.start/end_position, "
    "obj _pg_start/_pg_end) equal the node positions. Non-trivial = sentence containing layout or a tree with an empty node; "
    "distinct = (grammar, parser kind, input)."
)
ASSUMPTIONS = [
    "KF-C08-2 (GLR places a trailing empty node after the following layout and packs spans per link) is attributed by a structural classifier on the offending node",
]

COMMENT_LAYOUT = (
    "LAYOUT: LayoutItem | LAYOUT LayoutItem | EMPTY;\n"
    "LayoutItem: WS | Comment;\n"
    "Comment: '/*' CorNCs '*/' | LineComment;\n"
    "CorNCs: CorNC | CorNCs CorNC | EMPTY;\n"
    "CorNC: Comment | NotComment | WS;\n"
)
COMMENT_TERMS = "WS: /\\s+/;\nLineComment: /\\/\\/.*/;\nNotComment: /((\\*[^\\/])|[^\\s*\\/]|\\/[^\\*])+/;"
WS_LAYOUT = "LAYOUT: LayoutItem | LAYOUT LayoutItem | EMPTY;\nLayoutItem: WS;\n"
WS_TERMS = "WS: /[ \\t\\r\\n]+/;"

COMMENT_FILLERS = ["", " ", "\n", " // c\n", "/* x */", " /* a /* b */ c */ ", "\t", "/**/"]


def plan(tier):
    return {"nshards": 16, "budget_s": 40 if tier == "quick" else 420}


def required(tier):
    return {
        "trees.glr_prefix_mode": 1000,
        "parsers.debug_mode": 10,
        "nontrivial": 3000 if tier == "quick" else 30000,
        "trees.lr": 3000,
        "trees.glr": 10000,
        "trees.first": 3000,
        "nodes_checked": 100000,
        "empty_nodes_checked": 10000,
        "layout.ws": 2000,
        "layout.rule": 500,
        "layout.comments": 300,
        "ignore_case": 100,
        "actions.positions_compared": 5000,
        "obj.positions_compared": 300,
        "empty.leading": 500,
        "empty.middle": 500,
        "empty.trailing": 500,
        "trees.lr_with_start_position": 300,
        "grammar.lex_corpus": 4,
    }


def check_tree(root, inp, layout_chars_ok, canon=None):
    """Walks every node.  Returns ([(signature, detail)], stats).  With canon
    (a position -> position map) the structural invariants are evaluated on
    mapped positions (used only by the KF-C08-2 classifier)."""
    errs = []
    leaves = []
    n = len(inp)
    stats = {"nodes": 0, "empty": 0}
    cm = canon or (lambda p: p)

    def walk(node, lo, hi):
        stats["nodes"] += 1
        s, e = node.start_position, node.end_position
        if not (type(s) is int and type(e) is int):
            errs.append(("non-integer-position", "%s[%r->%r]" % (node.symbol.name, s, e)))
            return
        if not (0 <= s <= n and 0 <= e <= n):
            errs.append(("position-out-of-bounds", "%s[%d->%d], input length %d" % (node.symbol.name, s, e, n)))
            return
        s, e = cm(s), cm(e)
        if s > e:
            errs.append(("start-after-end", "%s[%d->%d]" % (node.symbol.name, node.start_position, node.end_position)))
            return
        if not (lo <= s and e <= hi):
            errs.append(("child-outside-parent", "%s[%d->%d] not within its parent's span %d->%d" % (node.symbol.name, s, e, lo, hi)))
        if node.is_term():
            if canon is None and node.value != inp[s:e]:
                errs.append(("leaf-value", "leaf %s value %r != input[%d:%d]=%r" % (node.symbol.name, node.value, s, e, inp[s:e])))
            leaves.append(node)
            return
        if not node.children:
            stats["empty"] += 1
        prev_end = None
        for c in node.children:
            cs = c.start_position
            if prev_end is not None and type(cs) is int and cm(cs) < prev_end:
                errs.append(("siblings-overlap", "%s starts at %s before its left sibling ends at %s" % (c.symbol.name, cs, prev_end)))
            walk(c, s, e)
            if type(c.end_position) is int and 0 <= c.end_position <= n:
                prev_end = cm(c.end_position)

    walk(root, 0, n)
    # complete leaf list / empty-node count independent of early returns above
    leaves = []
    stats["empty"] = 0
    st = [root]
    while st:
        x = st.pop()
        if x.is_term():
            leaves.append(x)
        elif not x.children:
            stats["empty"] += 1
        else:
            st.extend(reversed(x.children))
    if canon is None:
        rec = "".join((l.layout_content or "") + l.value for l in leaves)
        if not (inp.startswith(rec) and layout_chars_ok(inp[len(rec):])):
            errs.append(("not-lossless", "layout_content+value of the leaves give %r, input is %r" % (rec, inp)))
    stats["leaves"] = leaves
    return errs, stats


def gap_canon(leaves, n):
    """Maps every position lying in a gap between two consecutive leaves (ends
    included) to the start of that gap.  Under KF-C08-2 an empty node, and the
    spans it induces, may sit anywhere inside the layout gap."""
    gaps = []
    pos = 0
    for l in leaves:
        gaps.append((pos, l.start_position))
        pos = l.end_position
    gaps.append((pos, n))

    def cm(p):
        for a, b in gaps:
            if a <= p <= b:
                return a
        return p

    return cm


def make_case_grammar(ctx, g, layout_kind):
    if layout_kind == "ws":
        return g.text(inline=ctx.rng.random() < 0.3)
    if layout_kind == "rule":
        return g.text(extra_rules=WS_LAYOUT.strip(), extra_terms=WS_TERMS)
    return g.text(extra_rules=COMMENT_LAYOUT.strip(), extra_terms=COMMENT_TERMS)


def run(ctx):
    from pgverif.mon.contracts import Contracts

    mon = LRMonitor()
    mon.install()
    con = Contracts(("skipws", "get_tree"))
    con.install()
    maxlen = 4 if ctx.tier == "quick" else 5
    try:
        for i, (name, g) in enumerate(cfg.LEX_CORPUS):
            if ctx.mine(i):
                ctx.count("grammar.lex_corpus")
                text = g.text()
                glr = pgx.glr(pgx.grammar(text))
                case0 = {"grammar": text, "g": g.to_json(), "layout": "ws", "ignore_case": False, "named": None}
                for w in cfg.all_strings(cfg.LEX_ALPHABET, 6 if ctx.tier == "quick" else 7):
                    if cfg.Chart(g, w).is_sentence():
                        check_input(ctx, g, glr, None, dict(case0, input=w), w, cfg.skip_ws)
        for name, g, alphabet in glrwork.grammar_stream(ctx, acyclic=True, eps_weights=(2, 3, 3, 4), overlap_share=0.15):
            if not ctx.more():
                break
            one_grammar(ctx, g, alphabet, maxlen)
    finally:
        mon.uninstall()
        con.uninstall()
    con.report(ctx)


def eps_positions(g):
    nl = g.nullable()
    out = set()
    for _, r in g.prods:
        if len(r) >= 2:
            if r[0] in nl:
                out.add("leading")
            if r[-1] in nl:
                out.add("trailing")
            if any(s in nl for s in r[1:-1]):
                out.add("middle")
    return out


def one_grammar(ctx, g, alphabet, maxlen):
    rng = ctx.rng
    layout_kind = rng.choice(["ws", "ws", "ws", "rule", "comments"])
    ignore_case = rng.random() < 0.1 and not glrwork.has_overlap(g)
    text = make_case_grammar(ctx, g, layout_kind)
    for p in eps_positions(g):
        ctx.count("empty." + p)
    if ignore_case:
        ctx.count("ignore_case")
    fillers = COMMENT_FILLERS if layout_kind == "comments" else glrwork.LAYOUT_FILLERS
    skip = cfg.skip_comments if layout_kind == "comments" else cfg.skip_ws
    if len(alphabet) >= 3 and maxlen > 3:
        maxlen = 3
    # debug=True only prints (into the void here): what the trees say must not depend on it
    dbg = {"debug": True} if rng.random() < 0.08 else {}
    if dbg:
        ctx.count("parsers.debug_mode")
    try:
        with pgx.watchdog(20):
            pg = pgx.grammar(text, ignore_case=ignore_case)
            glr = pgx.glr(pg, **dbg)
    except Exception as e:  # noqa: BLE001
        ctx.count("construction_failed:" + type(e).__name__)
        return
    # trees of sentence *prefixes* (consume_input=False): each is faithful to the prefix it reads
    try:
        glr.prefix_parser = pgx.glr(pg, consume_input=False) if rng.random() < 0.3 else None
    except Exception:  # noqa: BLE001
        glr.prefix_parser = None
    lr = None
    try:
        with pgx.watchdog(20):
            lr = pgx.lr(pgx.grammar(text, ignore_case=ignore_case), build_tree=True, **dbg)
    except Exception:  # noqa: BLE001
        pass
    # on-the-fly actions and obj results (named matches) for the same grammar
    lr_act = lr_obj = None
    named_text = None
    if lr is not None:
        try:
            pg2 = pgx.grammar(text, ignore_case=ignore_case)
            lr_act = pgx.lr(pg2, actions=recording_actions(g))
            if layout_kind == "ws":
                named_text = g.text(named=True)
                lr_obj = pgx.lr(pgx.grammar(named_text, ignore_case=ignore_case))
        except Exception as e:  # noqa: BLE001
            ctx.count("action_parsers_failed:" + type(e).__name__)
    case0 = {"grammar": text, "g": g.to_json(), "layout": layout_kind, "ignore_case": ignore_case, "named": named_text, "debug": bool(dbg)}
    extra = (lr_act, lr_obj)
    for w in cfg.all_strings(alphabet, maxlen):
        if not cfg.Chart(g, w, skip=cfg.skip_none).is_sentence():
            continue
        inp = glrwork.relayout(w, rng, fillers, density=0.35 if glrwork.has_overlap(g) else 1.0) if rng.random() < 0.8 else w
        if ignore_case:
            inp = "".join(c.upper() if rng.random() < 0.5 else c for c in inp)
        if layout_kind == "comments" and not comments_well_formed(inp):
            continue
        ctx.count("layout." + layout_kind)
        check_input(ctx, g, glr, lr, dict(case0, input=inp), inp, skip, extra)


def comments_well_formed(inp):
    return cfg.skip_comments(inp, 0) is not None


def layout_ok_fn(skip):
    def f(rest):
        return skip(rest, 0) == len(rest)

    return f


def recording_actions(g):
    def mk(name):
        def act(context, nodes):
            return ("N", name, context.start_position, context.end_position, list(nodes))

        return act

    return {n: mk(n) for n in g.nts}


def tree_record(n):
    if n.is_term():
        return n.value
    return ("N", n.symbol.name, n.start_position, n.end_position, [tree_record(c) for c in n.children])


def compare_obj(ctx, case, tree, val):
    """obj results carry the positions of the corresponding tree nodes."""
    if tree.is_term():
        return True
    if not hasattr(val, "_pg_start_position"):
        return True  # rule without named matches (only empty alternatives)
    ctx.count("obj.positions_compared")
    if (val._pg_start_position, val._pg_end_position) != (tree.start_position, tree.end_position):
        ctx.violation(
            "lr:obj-positions",
            dict(case, parser="LR"),
            "obj for %s has _pg positions %s-%s, tree node %s-%s" % (tree.symbol.name, val._pg_start_position, val._pg_end_position, tree.start_position, tree.end_position),
        )
        return False
    kids = val._pg_children
    if len(kids) != len(tree.children):
        return True
    for c, v in zip(tree.children, kids):
        if not compare_obj(ctx, case, c, v):
            return False
    return True


def check_input(ctx, g, glr, lr, case, inp, skip, extra=(None, None)):
    is_layout = layout_ok_fn(skip)
    key = (case["grammar"], inp)
    has_layout = skip(inp, 0) != 0 or any(skip(inp, i) != i for i in range(len(inp)))
    # --- GLR ---
    try:
        with pgx.watchdog(30):
            o = glrobs.parse_glr(glr, inp)
    except pgx.BudgetExceeded as e:
        if type(e).__name__ == "ContractBroken":
            ctx.case(key + ("GLR",), True)
            ctx.violation("contract-broken", dict(case, parser="GLR"), str(e))
            return
        ctx.inconc("glr budget %r %r" % (case["grammar"], inp))
        return
    except pgx.CaseTimeout:
        ctx.inconc("glr timeout %r %r" % (case["grammar"], inp))
        return
    if o.kind == "forest" and not o.loop:
        trees = [("glr[%d]" % i, o.forest[i]) for i in range(min(o.len, 40))]
        trees.append(("glr.first", o.forest.get_first_tree()))
        had_empty = False
        for nm, t in trees:
            errs, st = check_tree(t, inp, is_layout)
            ctx.count("trees.first" if nm == "glr.first" else "trees.glr")
            ctx.count("nodes_checked", st["nodes"])
            ctx.count("empty_nodes_checked", st["empty"])
            had_empty = had_empty or st["empty"] > 0
            known = None
            if errs and has_layout and st["empty"] > 0 and not os.environ.get("PGV_NOCLASS"):
                structural = all(sig in ("child-outside-parent", "siblings-overlap", "start-after-end") for sig, _ in errs)
                if structural:
                    cerrs, _ = check_tree(t, inp, is_layout, canon=gap_canon(st["leaves"], len(inp)))
                    if not cerrs:
                        known = "KF-C08-2"
            for sig, detail in errs:
                ctx.violation("glr:" + sig, dict(case, parser="GLR", tree=nm), "%s: %s" % (nm, detail), known=known)
            if errs:
                break
        ctx.case(key + ("GLR",), has_layout or had_empty, sample={"grammar": case["grammar"], "input": inp, "parser": "GLR", "trees": o.len})
    elif o.kind != "forest":
        ctx.count("glr_rejected_or_failed")
    pp = getattr(glr, "prefix_parser", None)
    if pp is not None:
        try:
            with pgx.watchdog(30):
                po = glrobs.parse_glr(pp, inp)
        except (pgx.CaseTimeout, pgx.BudgetExceeded):
            po = None
        if po is not None and po.kind == "forest" and not po.loop:
            for i in range(min(po.len, 20)):
                t = po.forest[i]
                lv = pgx.tree_leaves(t)
                pend = lv[-1].end_position if lv else 0
                if not (type(pend) is int and 0 <= pend <= len(inp)):
                    continue
                pend = skip(inp, pend)
                errs, st = check_tree(t, inp[:pend], is_layout)
                ctx.count("trees.glr_prefix_mode")
                known = None
                if errs and has_layout and st["empty"] > 0 and not os.environ.get("PGV_NOCLASS"):
                    if all(sig in ("child-outside-parent", "siblings-overlap", "start-after-end") for sig, _ in errs):
                        cerrs, _ = check_tree(t, inp[:pend], is_layout, canon=gap_canon(st["leaves"], pend))
                        if not cerrs:
                            known = "KF-C08-2"
                for sig, detail in errs:
                    ctx.violation("glr-prefix:" + sig, dict(case, parser="GLR-prefix", tree=i), "consume_input=False, forest[%d] (prefix %r): %s" % (i, inp[:pend], detail), known=known)
                if errs:
                    break
    # --- parse(input, position=k): positions stay absolute ---
    if lr is not None and hash(inp) % 5 == 0:
        pre = "#?" + inp[:1]
        try:
            with pgx.watchdog(30):
                k0, v0 = pgx.outcome(lr.parse, pre + inp, len(pre))
        except (pgx.CaseTimeout, pgx.BudgetExceeded):
            k0 = None
        if k0 == "ret":
            ctx.count("trees.lr_with_start_position")
            full = pre + inp
            errs, st = check_tree(v0, full, is_layout)
            errs = [e for e in errs if e[0] != "not-lossless"]
            leaves = st["leaves"]
            if leaves and leaves[0].start_position < len(pre):
                errs.append(("leaf-before-start-position", "first leaf at %d, parse started at %d" % (leaves[0].start_position, len(pre))))
            rec = "".join((l.layout_content or "") + l.value for l in leaves)
            if not (full[len(pre):].startswith(rec) and is_layout(full[len(pre) + len(rec):])):
                errs.append(("not-lossless", "from position %d the leaves give %r, input is %r" % (len(pre), rec, full[len(pre):])))
            for sig, detail in errs:
                ctx.violation("lr:" + sig, dict(case, parser="LR", start_position=len(pre), input=full), "parse(position=%d): %s" % (len(pre), detail))
    # --- LR ---
    if lr is not None:
        try:
            with pgx.watchdog(30):
                kind, val = pgx.outcome(lr.parse, inp)
        except (pgx.CaseTimeout, pgx.BudgetExceeded):
            ctx.count("lr_timeout_or_diverged")
            return
        if kind == "ret":
            errs, st = check_tree(val, inp, is_layout)
            ctx.count("trees.lr")
            ctx.count("nodes_checked", st["nodes"])
            ctx.count("empty_nodes_checked", st["empty"])
            ctx.case(key + ("LR",), has_layout or st["empty"] > 0, sample={"grammar": case["grammar"], "input": inp, "parser": "LR"})
            for sig, detail in errs:
                ctx.violation("lr:" + sig, dict(case, parser="LR"), detail)
            if not errs:
                action_positions(ctx, case, lr, val, inp)
                lr_act, lr_obj = extra
                if lr_act is not None:
                    k2, v2 = pgx.outcome(lr_act.parse, inp)
                    if k2 != "ret":
                        ctx.violation("lr:actions-parser-differs", dict(case, parser="LR"), "parser with actions: %s" % k2)
                    else:
                        ctx.count("actions.onthefly_compared")
                        if v2 != tree_record(val):
                            ctx.violation("lr:action-context-positions", dict(case, parser="LR"), "positions/structure seen by on-the-fly actions differ from the tree: %s vs %s" % (str(v2)[:200], str(tree_record(val))[:200]))
                if lr_obj is not None:
                    k3, v3 = pgx.outcome(lr_obj.parse, inp)
                    if k3 == "ret":
                        compare_obj(ctx, case, val, v3)


def action_positions(ctx, case, lr, tree, inp):
    """Positions seen by actions (deferred evaluation over the tree) equal the
    node positions."""
    seen = []

    def visit(n):
        if n.is_term():
            return
        for c in n.children:
            visit(c)
        seen.append((n.context.start_position, n.context.end_position, n.start_position, n.end_position))

    visit(tree)
    for cs, ce, ns, ne in seen:
        ctx.count("actions.positions_compared")
        if (cs, ce) != (ns, ne):
            ctx.violation("lr:action-context-positions", dict(case, parser="LR"), "context positions %s-%s differ from node positions %s-%s" % (cs, ce, ns, ne))
            return


def replay(case, ctx):
    g = cfg.G.from_json(case["g"])
    pg = pgx.grammar(case["grammar"], ignore_case=case["ignore_case"])
    dbg = {"debug": True} if case.get("debug") else {}
    glr = pgx.glr(pg, **dbg)
    glr.prefix_parser = pgx.glr(pg, consume_input=False) if case.get("parser") == "GLR-prefix" else None
    lr = None
    try:
        lr = pgx.lr(pgx.grammar(case["grammar"], ignore_case=case["ignore_case"]), build_tree=True, **dbg)
    except Exception:  # noqa: BLE001
        pass
    skip = cfg.skip_comments if case["layout"] == "comments" else cfg.skip_ws
    lr_act = lr_obj = None
    if lr is not None:
        try:
            lr_act = pgx.lr(pgx.grammar(case["grammar"], ignore_case=case["ignore_case"]), actions=recording_actions(g))
            if case.get("named"):
                lr_obj = pgx.lr(pgx.grammar(case["named"], ignore_case=case["ignore_case"]))
        except Exception:  # noqa: BLE001
            pass
    check_input(ctx, g, glr, lr, case, case["input"], skip, (lr_act, lr_obj))
