"""C15 - parsers are reusable and grammars are not corrupted by building parsers."""

import json
import os
import subprocess
import sys

import parglare
import parglare.grammar as PG
import parglare.tables as T
from parglare.actions import pass_none

from pgverif import cfg, glrobs, pgx
from pgverif.mon.lr import LRMonitor
from pgverif.props import glrwork
from pgverif.props.c08 import WS_LAYOUT, WS_TERMS

ID = "C15"
LEVEL = "exploration"
RULE = (
    "cases = operation histories (length <= 6 quick / 8 thorough) over one Grammar object and its subject parsers (LR with actions, "
    "LR with error_recovery, GLR) with operations {parse sentence, parse non-sentence, parse with recovery, parse raising inside a "
    "user action, parse raising inside a recognizer, build another Parser/GLRParser (LALR|SLR, grammar with or without a LAYOUT rule) "
    "on the same Grammar with the same actions, failed build (S/R-R/R conflicts, wrong action list, injected fault inside table "
    "construction), parse an unrelated (possibly broken) grammar text}; after every operation the shared mutable state named by the "
    "property is snapshotted (augmented production, cached FIRST sets, EMPTY.action, module level grammar parser) and after the "
    "history every subject is probed on sentences and non-sentences; oracle = the same probes on freshly built objects in the same "
    "process and, for a sample of histories, in a fresh interpreter. Non-trivial = history with >= 3 operations of >= 2 kinds; "
    "distinct = (grammar, history)."
)
ASSUMPTIONS = ["probe outcomes are compared on canonical forms (results, tree forms with positions, error type/position/number of recorded errors)"]

OPS = ["ps", "pn", "pr", "pa", "pg", "bl", "bs", "bg", "bgs", "bo", "bo", "bf", "bfa", "bfi", "ng", "ngbad"]


# exception types of the injected faults: the library itself catches some of these around
# user callbacks (TypeError decides the recognizer calling convention)
FAULT_NAMES = ["Boom", "Boom", "TypeError", "ValueError", "KeyError", "AttributeError", "IndexError"]


class Boom(Exception):
    pass


def plan(tier):
    return {"nshards": 16, "budget_s": 40 if tier == "quick" else 400}


def required(tier):
    d = {"nontrivial": 400 if tier == "quick" else 4000, "probes.compared": 5000, "state.snapshots": 3000, "fresh_interpreter.histories": 3, "grammar.with_layout": 30}
    for op in OPS:
        d["op." + op] = 30
    d["op.bfi"] = 5
    d["failed_builds.conflicts"] = 20
    d["build_history.with_failure.unproductive"] = 30
    d["build_history.with_failure.stream"] = 10
    d["build_history.failure_and_success"] = 10
    d["raised.in_action"] = 50
    d["raised.in_recognizer"] = 50
    return d


FAULTS = {"Boom": Boom, "TypeError": TypeError, "ValueError": ValueError, "KeyError": KeyError, "AttributeError": AttributeError, "IndexError": IndexError}


class World:
    """One Grammar object, its subject parsers and the switches for faults."""

    def __init__(self, g, text, layout, build_subjects=True):
        self.g = g
        self.text = text
        self.flags = {"action": False, "recognizer": False}
        self.pg = self.make_grammar()
        self.actions = self.make_actions()
        self.subjects = {}
        if not build_subjects:
            return
        self.subjects["lr"] = pgx.lr(self.pg, actions=self.actions)
        self.subjects["lr_rec"] = pgx.lr(self.pg, actions=self.actions, build_tree=True, error_recovery=True)
        self.subjects["glr"] = pgx.glr(self.pg, actions=self.actions)

    def make_grammar(self):
        flags = self.flags
        tdefs = self.g.tdefs
        first = self.g.terms[0]

        def rec(inp, pos):
            # fault injection: raise on the k-th call of this parse (k = flags value)
            if flags["recognizer"] is not False:
                if flags["recognizer"] <= 0:
                    flags["recognizer"] = False
                    raise FAULTS[flags.get("exc", "Boom")]("recognizer")
                flags["recognizer"] -= 1
            e = tdefs[first].match(inp, pos)
            return inp[pos:e] if e is not None else None

        return pgx.grammar(self.text, recognizers={first: rec})

    def make_actions(self):
        flags = self.flags

        def mk(name):
            def act(context, nodes):
                if flags["action"] is not False:
                    if flags["action"] <= 0:
                        flags["action"] = False
                        raise FAULTS[flags.get("exc", "Boom")]("action")
                    flags["action"] -= 1
                # user state kept in context.extra lives for one parse (one forest) only
                ex = getattr(context, "extra", None)
                seen = None
                if isinstance(ex, dict):
                    seen = ex.get("seen", 0)
                    ex["seen"] = seen + 1
                return (name, tuple(nodes), seen)

            return act

        return {n: mk(n) for n in self.g.nts}


LATE = [
    ("late_lr", "lr", "Parser", {}),
    ("late_glr", "glr", "GLRParser", {}),
    ("late_glr_ps", "glr", "GLRParser", {"prefer_shifts": True, "prefer_shifts_over_empty": True}),
    ("late_lr_nold", "lr", "Parser", {"lexical_disambiguation": False}),
    ("late_glr_ld", "glr", "GLRParser", {"lexical_disambiguation": True}),
]


def build_with(pg, actions, cls, kw):
    kw = dict(kw)
    if kw.get("tables") == "SLR":
        kw["tables"] = pgx.SLR
    elif "tables" in kw:
        kw["tables"] = pgx.LALR
    return pgx.lr(pg, actions=actions, **kw) if cls == "Parser" else pgx.glr(pg, actions=actions, **kw)


def late_probes(w, probes):
    """Parsers built from the same Grammar object *after* the history."""
    out = {}
    for name, kind, cls, kw in LATE:
        try:
            p = build_with(w.pg, w.actions, cls, kw)
        except (pgx.CaseTimeout, pgx.BudgetExceeded):
            raise
        except Exception as e:  # noqa: BLE001
            for x in probes:
                out["%s|%s" % (name, x)] = ["ctor", type(e).__name__]
            continue
        for x in probes:
            out["%s|%s" % (name, x)] = canon(kind, p, x)
    return out


def canon(kind, parser, inp):
    """Outcome of subject.parse(inp) in canonical form."""
    try:
        with pgx.quiet():
            r = parser.parse(inp)
    except parglare.SyntaxError as e:
        return ["syntax", e.location.start_position]
    except (pgx.CaseTimeout, pgx.BudgetExceeded):
        raise
    except Exception as e:  # noqa: BLE001
        return ["exc", type(e).__name__]
    if kind == "glr":
        try:
            n = len(r)
        except Exception as e:  # noqa: BLE001
            return ["forest", type(e).__name__]
        try:
            return ["forest", n, sorted(repr(parser.call_actions(r[i])) for i in range(min(n, 20)))]
        except (pgx.CaseTimeout, pgx.BudgetExceeded):
            raise
        except Exception as e:  # noqa: BLE001
            return ["exc", type(e).__name__]
    if kind == "lr_rec":
        return ["tree", r.to_str(), [(e.location.start_position, e.location.end_position) for e in parser.errors]]
    return ["ret", repr(r)]


def snapshot(pg):
    """M-state: the shared mutable state the property names."""
    fs = getattr(pg, "_first_sets", None)
    return {
        "aug": [s.name for s in list.__iter__(pg.productions[0].rhs)],
        "first": None if fs is None else sorted((k.name, sorted(x.name for x in v)) for k, v in fs.items()),
        "empty_action": PG.EMPTY.action is pass_none,
        "nprods": len(pg.productions),
        "prod_ids": [p.prod_id for p in pg.productions],
    }


def run(ctx):
    mon = LRMonitor()
    mon.install()
    try:
        n = 0
        for name, g, alphabet in glrwork.grammar_stream(ctx, acyclic=True, overlap_share=0.3, eps_weights=(1, 1, 2)):
            if not ctx.more():
                break
            n += 1
            one_grammar(ctx, g, alphabet, n)
    finally:
        mon.uninstall()


BUILD_KINDS = [
    ["Parser", {}],
    ["GLRParser", {}],
    ["Parser", {"tables": "SLR"}],
    ["GLRParser", {"tables": "SLR"}],
    ["Parser", {"prefer_shifts": False, "prefer_shifts_over_empty": False}],
    ["GLRParser", {"prefer_shifts": True, "prefer_shifts_over_empty": True}],
]


def build_outcome(pg, cls, kw, probes):
    try:
        p = build_with(pg, None, cls, kw)
    except (pgx.CaseTimeout, pgx.BudgetExceeded):
        raise
    except Exception as e:  # noqa: BLE001
        return ["ctor", type(e).__name__, str(e)[:300]]
    return ["ok", [canon("glr" if cls == "GLRParser" else "lr", p, x) for x in probes]]


def failing_builds(ctx, g, text, probes, why):
    """Histories of constructions on ONE Grammar object, some of which fail
    (conflicts, unproductive rules): every construction must end as the same
    construction on a Grammar object of its own."""
    rng = ctx.rng
    seq = [rng.choice(BUILD_KINDS) for _ in range(rng.randint(2, 4))]
    if rng.random() < 0.5:
        seq[-1] = seq[0]
    hist = {"grammar": text, "builds": seq, "probes": probes}
    try:
        with pgx.watchdog(60):
            shared = pgx.grammar(text)
            got = [build_outcome(shared, cls, kw, probes) for cls, kw in seq]
            want = [build_outcome(pgx.grammar(text), cls, kw, probes) for cls, kw in seq]
    except pgx.CaseTimeout:
        ctx.inconc("construction history timeout")
        return
    except pgx.BudgetExceeded:
        ctx.count("diverged_not_judged")
        return
    except Exception as e:  # noqa: BLE001
        ctx.count("grammar_not_loadable:" + type(e).__name__)
        return
    failed = sum(1 for o in want if o[0] == "ctor")
    ctx.count("build_history.cases")
    ctx.case((text, json.dumps(seq)), failed >= 1 and len(seq) >= 2, sample=hist)
    if failed:
        ctx.count("build_history.with_failure." + why)
        for o in want:
            if o[0] == "ctor":
                ctx.seen("build_failure", o[1])
    if failed and any(o[0] == "ok" for o in want):
        ctx.count("build_history.failure_and_success")
    if got != want:
        i = [k for k in range(len(seq)) if got[k] != want[k]][0]
        ctx.violation(
            "construction-depends-on-earlier-constructions",
            hist,
            "construction %d (%s %s) on the shared Grammar ends as %s, on a Grammar of its own as %s" % (i, seq[i][0], seq[i][1], str(got[i])[:200], str(want[i])[:200]),
        )


def unproductive_variant(g, rng):
    """g plus a rule that derives no terminal string, reachable from a random rule."""
    t = rng.choice(g.terms)
    host = rng.choice(g.nts)
    shape = rng.choice([[("U", ("U", t))], [("U", (t, "U"))], [("U", ("V", t)), ("V", ("U",))], [("U", ("U", t)), ("U", ("U", "U"))]])
    return cfg.G(list(g.prods) + [(host, ("U",))] + shape, g.start, g.tdefs)


def one_grammar(ctx, g, alphabet, n):
    rng = ctx.rng
    if rng.random() < 0.25:
        probes = list(cfg.all_strings(alphabet, 2))[:6]
        if rng.random() < 0.5 and g.terms:
            gu = unproductive_variant(g, rng)
            failing_builds(ctx, gu, gu.text(), probes, "unproductive")
        else:
            failing_builds(ctx, g, g.text(), probes, "stream")
    layout = rng.random() < 0.3
    text = g.text(extra_rules=WS_LAYOUT.strip(), extra_terms=WS_TERMS) if layout else g.text()
    try:
        with pgx.watchdog(30):
            World(g, text, layout)
    except pgx.CaseTimeout:
        ctx.inconc("construction timeout")
        return
    except Exception as e:  # noqa: BLE001
        ctx.count("world_not_constructible:" + type(e).__name__)
        return
    if layout:
        ctx.count("grammar.with_layout")
    strings = list(cfg.all_strings(alphabet, 4))
    sentences = [w for w in strings if cfg.Chart(g, w, skip=cfg.skip_none).is_sentence()]
    nons = [w for w in strings if w not in sentences]
    if not sentences or not nons:
        return
    for _ in range(3):
        L = rng.randint(2, 6) if ctx.tier == "quick" else rng.randint(3, 8)
        ops = []
        for _ in range(L):
            op = rng.choice(OPS)
            arg = None
            if op in ("pa", "pg"):
                # [input, k]: the fault fires on the k-th call; inputs include non-sentences so
                # that recognizers also raise while an error is being reported
                arg = [rng.choice(sentences) if rng.random() < 0.6 else rng.choice(nons), rng.choice([0, 0, 1, 2, 3, 4, 5, 6, 8]), rng.choice(FAULT_NAMES)]
            elif op == "ps":
                arg = rng.choice(sentences)
            elif op in ("pn", "pr"):
                arg = rng.choice(nons) if rng.random() < 0.8 else glrwork.relayout(rng.choice(nons), rng)
            elif op == "bfi":
                arg = rng.randint(1, 6)
            elif op == "bo":
                kw = {}
                for k in ("prefer_shifts", "prefer_shifts_over_empty", "lexical_disambiguation"):
                    v = rng.choice([None, True, False])
                    if v is not None:
                        kw[k] = v
                if rng.random() < 0.3:
                    kw["tables"] = "SLR"
                arg = [rng.choice(["Parser", "GLRParser"]), kw]
                if rng.random() < 0.5:
                    # configurations that share table options with other parsers but differ in the scanner options
                    arg = rng.choice(
                        [
                            ["Parser", {"prefer_shifts": False, "prefer_shifts_over_empty": False}],
                            ["GLRParser", {"prefer_shifts": True, "prefer_shifts_over_empty": True}],
                            ["GLRParser", {"lexical_disambiguation": True}],
                            ["Parser", {"lexical_disambiguation": False}],
                            ["GLRParser", {"tables": "SLR", "lexical_disambiguation": True}],
                        ]
                    )
            ops.append([op, arg, rng.choice(["lr", "lr_rec", "glr"])])
        probes = rng.sample(sentences, min(3, len(sentences))) + rng.sample(nons, min(3, len(nons)))
        hist = {"grammar": text, "g": g.to_json(), "layout": layout, "ops": ops, "probes": probes}
        try:
            with pgx.watchdog(60):
                got = execute(ctx, hist, judge_state=True)
                want = fresh_outcomes(hist)
        except pgx.CaseTimeout:
            ctx.inconc("history timeout")
            continue
        except pgx.BudgetExceeded:
            ctx.count("diverged_not_judged")
            continue
        if got is None:
            continue
        kinds = set(o[0] for o in ops)
        ctx.case((text, json.dumps(ops)), len(ops) >= 3 and len(kinds) >= 2, sample={"grammar": text, "ops": ops, "probes": probes})
        ctx.count("probes.compared", len(got))
        if got != want:
            diff = [(k, got[k], want[k]) for k in got if got[k] != want.get(k)][:2]
            ctx.violation("probe-differs-from-fresh-objects", hist, "after the history the subject parsers answer differently from freshly built ones: %s" % (str(diff)[:500]))
            continue
        if rng.random() < (0.02 if ctx.tier == "quick" else 0.05):
            far = fresh_interpreter(hist)
            ctx.count("fresh_interpreter.histories")
            got = json.loads(json.dumps(got))
            if far is not None and far != got:
                diff = [(k, got[k], far.get(k)) for k in got if got[k] != far.get(k)][:2]
                ctx.violation("probe-differs-from-fresh-interpreter", hist, "the same probes in a fresh interpreter give other outcomes: %s" % (str(diff)[:500]))


def execute(ctx, hist, judge_state):
    """Runs the history on one World; returns probe outcomes {subject|input: outcome}."""
    g = cfg.G.from_json(hist["g"])
    w = World(g, hist["grammar"], hist["layout"])
    pg = w.pg
    base = snapshot(pg)
    for op, arg, subj in hist["ops"]:
        if ctx is not None:
            ctx.count("op." + op)
        s = w.subjects[subj]
        if op in ("ps", "pn"):
            canon(subj, s, arg)
        elif op == "pr":
            canon("lr_rec", w.subjects["lr_rec"], arg)
        elif op == "pa":
            w.flags["action"] = arg[1]
            w.flags["exc"] = arg[2] if len(arg) > 2 else "Boom"
            try:
                r = canon(subj, s, arg[0])
                if ctx is not None and r[:2] == ["exc", w.flags["exc"]]:
                    ctx.count("raised.in_action")
                    ctx.seen("fault_types", "action:" + w.flags["exc"])
            finally:
                w.flags["action"] = False
        elif op == "pg":
            w.flags["recognizer"] = arg[1]
            w.flags["exc"] = arg[2] if len(arg) > 2 else "Boom"
            try:
                r = canon(subj, s, arg[0])
                if ctx is not None and r[:2] == ["exc", w.flags["exc"]]:
                    ctx.count("raised.in_recognizer")
                    ctx.seen("fault_types", "recognizer:" + w.flags["exc"])
            finally:
                w.flags["recognizer"] = False
        elif op in ("bl", "bs", "bg", "bgs"):
            try:
                tb = pgx.SLR if op in ("bs", "bgs") else pgx.LALR
                if op in ("bl", "bs"):
                    pgx.lr(pg, actions=w.actions, tables=tb)
                else:
                    pgx.glr(pg, actions=w.actions, tables=tb)
            except (pgx.CaseTimeout, pgx.BudgetExceeded):
                raise
            except Exception:  # noqa: BLE001
                pass
        elif op == "bo":
            try:
                build_with(pg, w.actions, arg[0], arg[1])
            except (pgx.CaseTimeout, pgx.BudgetExceeded):
                raise
            except Exception:  # noqa: BLE001
                pass
        elif op == "bf":
            try:
                pgx.lr(pg, actions=w.actions, prefer_shifts=False, prefer_shifts_over_empty=False, tables=pgx.SLR)
            except (parglare.exceptions.SRConflicts, parglare.exceptions.RRConflicts):
                if ctx is not None:
                    ctx.count("failed_builds.conflicts")
            except (pgx.CaseTimeout, pgx.BudgetExceeded):
                raise
            except Exception:  # noqa: BLE001
                pass
        elif op == "bfa":
            if ctx is not None and ctx.rng.random() < 0.5:
                bad = dict(w.actions)
                bad[g.start] = [bad[g.start]] * (len(g.by[g.start]) + 1)
            else:
                # other actions for the rules, and a list of actions for a terminal (refused
                # only after the rules have been re-bound)
                bad = {n: (lambda name: (lambda context, nodes: ("BAD", name)))(n) for n in g.nts}
                bad[g.terms[0]] = [lambda context, value: "BAD-T"]
            try:
                pgx.lr(pg, actions=bad)
            except (pgx.CaseTimeout, pgx.BudgetExceeded):
                raise
            except Exception as e:  # noqa: BLE001
                if ctx is not None:
                    ctx.count("failed_builds.action_table:" + type(e).__name__)
            # "a later successful construction": the next builder passes the right table (the very
            # same dict object) again
            try:
                w.keep = getattr(w, "keep", []) + [pgx.glr(pg, actions=w.actions)]
            except (pgx.CaseTimeout, pgx.BudgetExceeded):
                raise
            except Exception:  # noqa: BLE001
                pass
        elif op == "bfi":
            inject_fault(pg, w.actions, arg)
        elif op == "ng":
            try:
                pgx.lr(pgx.grammar('X: "x" Y | EMPTY; Y: X "y";'))
            except Exception:  # noqa: BLE001
                pass
        elif op == "ngbad":
            for bad in ('X: "x" Y;', "X: ;;", 'X: "x" | ; terminals'):
                try:
                    pgx.grammar(bad)
                except Exception:  # noqa: BLE001
                    pass
        if op == "bfi":
            # an injected fault may leave internal state behind; it is judged by
            # the probes (observable behaviour) only
            base = snapshot(pg)
        if judge_state and ctx is not None and op != "bfi":
            ctx.count("state.snapshots")
            now = snapshot(pg)
            if now != base and base["first"] is not None:
                diff = [k for k in now if now[k] != base[k]]
                ctx.violation("shared-state-changed:" + ",".join(diff), hist, "after operation %s the grammar's shared state differs: %s" % (op, {k: (base[k], now[k]) for k in diff if k != "first"}))
                return None
            base = now
    # a builder with the right actions restores symbol.action for everybody ("with the same actions")
    out = {}
    for subj in ("lr", "lr_rec", "glr"):
        for x in hist["probes"]:
            out["%s|%s" % (subj, x)] = canon(subj, w.subjects[subj], x)
    out.update(late_probes(w, hist["probes"]))
    return out


def inject_fault(pg, actions, after):
    """Failed construction by an exception raised inside table construction."""
    orig = T.LRState.__init__
    count = {"n": 0}

    def init(self, *a, **k):
        count["n"] += 1
        if count["n"] > after:
            raise Boom("injected fault in table construction")
        return orig(self, *a, **k)

    T.LRState.__init__ = init
    try:
        pgx.lr(pg, actions=actions)
    except Boom:
        pass
    except (pgx.CaseTimeout, pgx.BudgetExceeded):
        raise
    except Exception:  # noqa: BLE001
        pass
    finally:
        T.LRState.__init__ = orig


def fresh_outcomes(hist):
    g = cfg.G.from_json(hist["g"])
    out = {}
    for subj in ("lr", "lr_rec", "glr"):
        for x in hist["probes"]:
            w = World(g, hist["grammar"], hist["layout"])
            out["%s|%s" % (subj, x)] = canon(subj, w.subjects[subj], x)
    # every late parser from its own fresh Grammar object
    for entry in LATE:
        # a Grammar object nothing else was ever built from
        w = World(g, hist["grammar"], hist["layout"], build_subjects=False)
        name, kind, cls, kw = entry
        try:
            p = build_with(w.pg, w.actions, cls, kw)
        except (pgx.CaseTimeout, pgx.BudgetExceeded):
            raise
        except Exception as e:  # noqa: BLE001
            for x in hist["probes"]:
                out["%s|%s" % (name, x)] = ["ctor", type(e).__name__]
            continue
        for x in hist["probes"]:
            out["%s|%s" % (name, x)] = canon(kind, p, x)
    return out


def fresh_interpreter(hist):
    from pgverif import runner

    try:
        r = subprocess.run(
            [runner.PY, "-m", "pgverif.props.c15"], input=json.dumps(hist), capture_output=True, text=True, timeout=120, env=runner.worker_env(), cwd=runner.ROOT
        )
        return json.loads(r.stdout.strip().split("\n")[-1])
    except Exception:  # noqa: BLE001
        return None


def replay(case, ctx):
    mon = LRMonitor()
    mon.install()
    try:
        if "builds" in case:
            shared = pgx.grammar(case["grammar"])
            got = [build_outcome(shared, cls, kw, case["probes"]) for cls, kw in case["builds"]]
            want = [build_outcome(pgx.grammar(case["grammar"]), cls, kw, case["probes"]) for cls, kw in case["builds"]]
            if got != want:
                ctx.violation("construction-depends-on-earlier-constructions", case, "%s vs %s" % (str(got)[:300], str(want)[:300]))
            return
        got = execute(ctx, case, judge_state=True)
        want = fresh_outcomes(case)
        if got is not None and got != want:
            diff = [(k, got[k], want[k]) for k in got if got[k] != want.get(k)][:2]
            ctx.violation("probe-differs-from-fresh-objects", case, str(diff)[:500])
    finally:
        mon.uninstall()


if __name__ == "__main__":
    # fresh interpreter: build fresh objects only, answer the probes
    h = json.loads(sys.stdin.read())
    print(json.dumps(fresh_outcomes(h)))
