"""C05 - table construction terminates and is a faithful LR(1)-family table."""

import parglare.tables as T
from parglare.closure import LR_0, LR_1

import json

from pgverif import cfg, pgx
from pgverif.props import glrwork

ID = "C05"
LEVEL = "exploration"
RULE = (
    "cases = (productive grammar, LALR|SLR, start production main|LAYOUT): corpus + systematic tiny grammars + random grammars "
    "(nullable chains, recursive grammars on which merging is refused); create_table(prefer_shifts=False, "
    "prefer_shifts_over_empty=False) runs under a state-construction counter with a budget derived from the canonical LR(1) "
    "automaton of the same grammar (bounded progress instead of a wall clock); the result is walked in lock-step with the "
    "reference canonical LR(1) automaton: LR1.actions(s) <= table.actions(p) <= LALR1.actions(core(s)) (SLR: <= SLR1), gotos "
    "present, reported conflicts == multi-action cells, augmented production restored. Non-trivial = grammar with >= 3 productions; "
    "distinct = (grammar text, kind, start)."
)
ASSUMPTIONS = [
    "pgverif/cfg.py LR1 is the canonical LR(1) construction (FIRST/FOLLOW computed independently)",
    "state budget 50*(N_LR1+1)*(|symbols|+1): a merge-or-split construction never needs more states than canonical LR(1)",
]


class StateBudgetExceeded(Exception):
    pass


class TableMonitor:
    def __init__(self):
        self.created = 0
        self.budget = None
        self.merges_ok = 0
        self.merges_refused = 0
        self.orig_init = T.LRState.__init__
        self.orig_merge = T.merge_states
        mon = self

        def init(self, *a, **k):
            mon.created += 1
            if mon.budget is not None and mon.created > mon.budget:
                raise StateBudgetExceeded("%d LR states constructed, budget %d" % (mon.created, mon.budget))
            return mon.orig_init(self, *a, **k)

        def merge(old, new):
            r = mon.orig_merge(old, new)
            if old == new:
                if r:
                    mon.merges_ok += 1
                else:
                    mon.merges_refused += 1
            return r

        T.LRState.__init__ = init
        T.merge_states = merge

    def uninstall(self):
        T.LRState.__init__ = self.orig_init
        T.merge_states = self.orig_merge


def plan(tier):
    return {"nshards": 16, "budget_s": 35 if tier == "quick" else 400}


def required(tier):
    return {
        "nontrivial": 1500 if tier == "quick" else 10000,
        "tables.LALR": 1000,
        "tables.SLR": 1000,
        "tables.start=LAYOUT": 200,
        "tables.in_sequence_on_one_grammar": 200,
        "merge.refused": 20,
        "merge.accepted": 1000,
        "cells_compared": 50000,
        "lalr1_grammars_conflict_free": 200,
        "grammars_with_conflicts": 200,
    }


LAYOUT_ALTS = [
    "LAYOUT: LI | LAYOUT LI | ; LI: w",
    "LAYOUT: w LAYOUT | ",
    "LAYOUT: LAYOUT w | w | ",
    "LAYOUT: w | w w LAYOUT | ",
    "LAYOUT: LI LAYOUT | ; LI: w | LE w; LE: ",
]


def run(ctx):
    mon = TableMonitor()
    try:
        stream = glrwork.grammar_stream(ctx, tiny=False)
        tiny = iter(())
        if ctx.tier == "thorough":
            tiny = (g for i, g in enumerate(cfg.tiny_grammars()) if ctx.mine(i))
        else:
            tiny = (g for i, g in enumerate(cfg.tiny_grammars()) if ctx.mine(i // 7) and i % 7 == ctx.seed % 7)
        n = 0
        while ctx.more():
            n += 1
            g = None
            if n % 2 == 0:
                g = next(tiny, None)
                name = "tiny"
            if g is None:
                name, g, _ = next(stream)
            one_grammar(ctx, mon, name, g)
    finally:
        mon.uninstall()
    ctx.count("merge.accepted", mon.merges_ok)
    ctx.count("merge.refused", mon.merges_refused)


def one_grammar(ctx, mon, name, g):
    layout = None
    if ctx.rng.random() < 0.25 and "w" not in g.terms and "LAYOUT" not in g.nts:
        layout = ctx.rng.choice(LAYOUT_ALTS)
    for kind in ("LALR", "SLR"):
        check_table(ctx, mon, g, kind, None)
        if layout:
            check_table(ctx, mon, g, kind, layout)
    if layout:
        check_sequence(ctx, mon, g, layout)


def check_sequence(ctx, mon, g, layout):
    """Several tables from ONE Grammar object, as a parser for a grammar with a
    LAYOUT rule builds them (layout table first, then the main one): each must be
    the table of its own start production and kind."""
    g2 = with_layout(g, layout)
    text = g2.text()
    try:
        pg = pgx.grammar(text)
    except Exception:  # noqa: BLE001
        return
    seq = [(ctx.rng.choice(["LALR", "SLR"]), st) for st in ctx.rng.choice([["LAYOUT", g.start], ["LAYOUT", g.start], [g.start, "LAYOUT"], ["LAYOUT", g.start, "LAYOUT"]])]
    for i, (kind, start) in enumerate(seq):
        case = {"grammar": text, "g": g2.to_json(), "kind": kind, "start": start, "sequence": [list(x) for x in seq[: i + 1]]}
        ref = cfg.LR1(g2, start)
        mon.created = 0
        mon.budget = 50 * (len(ref.states) + 1) * (len(g2.nts) + len(g2.terms) + 1)
        try:
            with pgx.watchdog(60), pgx.quiet():
                table = T.create_table(pg, itemset_type=LR_1 if kind == "LALR" else LR_0, start_production=pg.get_production_id(start), prefer_shifts=False, prefer_shifts_over_empty=False)
        except StateBudgetExceeded as e:
            ctx.violation("construction-diverges", case, "table construction does not terminate: %s" % e)
            return
        except pgx.CaseTimeout:
            ctx.inconc("construction watchdog: %r" % text)
            return
        except Exception as e:  # noqa: BLE001
            ctx.violation("construction-raises:" + type(e).__name__, case, "create_table raised %s: %s" % (type(e).__name__, str(e)[:200]))
            return
        finally:
            mon.budget = None
        ctx.case((text, json.dumps(case["sequence"])), i >= 1, sample={"grammar": text, "sequence": case["sequence"]})
        ctx.count("tables.in_sequence_on_one_grammar")
        judge_table(ctx, g2, pg, table, ref, kind, case)


def with_layout(g, layout):
    lg = cfg.G_(layout)
    prods = list(g.prods) + list(lg.prods)
    td = dict(g.tdefs)
    td["w"] = cfg.TDef("re", "_+")
    return cfg.G(prods, g.start, td)


def check_table(ctx, mon, g, kind, layout):
    if layout:
        g2 = with_layout(g, layout)
        start = "LAYOUT"
    else:
        g2 = g
        start = g.start
    text = g2.text()
    case = {"grammar": text, "g": g2.to_json(), "kind": kind, "start": start}
    key = (text, kind, start)
    ref = cfg.LR1(g2, start)
    nsyms = len(g2.nts) + len(g2.terms)
    mon.budget = None
    try:
        pg = pgx.grammar(text)
    except Exception as e:  # noqa: BLE001
        ctx.count("grammar_rejected")
        ctx.seen("grammar_errors", "%s: %s" % (type(e).__name__, str(e)[:60]))
        return
    start_prod = pg.get_production_id(start)
    old_rhs = list(list.__iter__(pg.productions[0].rhs))
    mon.created = 0
    mon.budget = 50 * (len(ref.states) + 1) * (nsyms + 1)
    try:
        with pgx.watchdog(60), pgx.quiet():
            table = T.create_table(pg, itemset_type=LR_1 if kind == "LALR" else LR_0, start_production=start_prod, prefer_shifts=False, prefer_shifts_over_empty=False)
    except StateBudgetExceeded as e:
        ctx.case(key, True)
        ctx.violation("construction-diverges", case, "table construction does not terminate: %s (canonical LR(1) has %d states)" % (e, len(ref.states)))
        return
    except pgx.CaseTimeout:
        ctx.case(key, False)
        ctx.inconc("construction watchdog: %r" % text)
        return
    except Exception as e:  # noqa: BLE001
        ctx.case(key, True)
        ctx.violation("construction-raises:" + type(e).__name__, case, "create_table raised %s: %s" % (type(e).__name__, str(e)[:200]))
        return
    finally:
        mon.budget = None
    ctx.case(key, len(g2.prods) >= 3, sample={"grammar": text, "kind": kind, "start": start, "states": len(table.states), "lr1_states": len(ref.states)})
    ctx.count("tables." + kind)
    ctx.count("tables.start=" + ("LAYOUT" if layout else "main"))
    ctx.count("states_constructed", mon.created)
    new_rhs = list(list.__iter__(pg.productions[0].rhs))
    if [s.name for s in new_rhs] != [s.name for s in old_rhs]:
        ctx.violation("augmented-production-not-restored", case, "grammar.productions[0].rhs is %s after create_table, was %s" % (new_rhs, old_rhs))
    judge_table(ctx, g2, pg, table, ref, kind, case)


def judge_table(ctx, g, pg, table, ref, kind, case):
    pkeys = pgx.prod_keys(pg)
    pindex = {k: i for i, k in enumerate(g.prods)}
    upper = ref.lalr_actions() if kind == "LALR" else ref.slr_actions()

    def pacts(ps):
        out = {}
        for t, al in ps.actions.items():
            tn = "$" if t.name == "STOP" else t.name
            for a in al:
                if a.action == T.SHIFT:
                    out.setdefault(tn, set()).add(("s",))
                elif a.action == T.ACCEPT:
                    out.setdefault(tn, set()).add(("acc",))
                else:
                    out.setdefault(tn, set()).add(("r", pindex.get(pkeys[a.prod.prod_id], -99)))
        return out

    seen = set()
    work = [(table.states[0], 0)]
    multi_cells = 0
    while work:
        ps, ls = work.pop()
        if (ps.state_id, ls) in seen:
            continue
        seen.add((ps.state_id, ls))
        pa = pacts(ps)
        la = ref.acts[ls]
        ua = upper[ref.core(ref.states[ls])]
        ctx.count("cells_compared", len(pa))
        for t, v in la.items():
            if not v <= pa.get(t, set()):
                ctx.violation("valid-action-missing", case, "state %d on %s: canonical LR(1) has %s, table has %s" % (ps.state_id, t, sorted(v), sorted(pa.get(t, set()))))
                return
        for t, v in pa.items():
            if not v <= ua.get(t, set()):
                ctx.violation(
                    "action-outside-%s1" % kind,
                    case,
                    "state %d on %s: table has %s, %s(1) allows only %s" % (ps.state_id, t, sorted(v), kind, sorted(ua.get(t, set()))),
                )
                return
        for (s, sym), tgt in ref.trans.items():
            if s != ls:
                continue
            if cfg.is_nt(sym):
                nt = pg.get_nonterminal(sym)
                if nt not in ps.gotos:
                    ctx.violation("goto-missing", case, "state %d has no goto on %s" % (ps.state_id, sym))
                    return
                work.append((ps.gotos[nt], tgt))
            else:
                term = pg.get_terminal(sym)
                sh = [a for a in ps.actions.get(term, []) if a.action == T.SHIFT]
                if not sh:
                    ctx.violation("shift-missing", case, "state %d has no shift on %s" % (ps.state_id, sym))
                    return
                work.append((sh[0].state, tgt))
    ctx.count("state_pairs_walked", len(seen))
    # conflicts bookkeeping: reported conflicts <=> multi-action cells
    sr = set()
    rr = set()
    for st in table.states:
        for term, acts in st.actions.items():
            if len(acts) > 1:
                multi_cells += 1
                if acts[0].action in (T.SHIFT, T.ACCEPT):
                    sr.add((st.state_id, term.name))
                else:
                    nonempty = [a for a in acts if len(a.prod.rhs)]
                    empty = [a for a in acts if not len(a.prod.rhs)]
                    if len(nonempty) > 1 or len(empty) > 1:
                        rr.add((st.state_id, term.name))
                    else:
                        ctx.count("cells.empty_nonempty_pair")
    got_sr = set((c.state.state_id, c.term.name) for c in table.sr_conflicts)
    got_rr = set((c.state.state_id, c.term.name) for c in table.rr_conflicts)
    if got_sr != sr or got_rr != rr:
        ctx.violation("conflict-bookkeeping", case, "reported S/R %s R/R %s, multi-action cells S/R %s R/R %s" % (sorted(got_sr), sorted(got_rr), sorted(sr), sorted(rr)))
        return
    if multi_cells:
        ctx.count("grammars_with_conflicts")
    if kind == "LALR" and ref.is_lalr1():
        ctx.count("lalr1_grammars_conflict_free")
        if multi_cells:
            ctx.violation("conflict-on-lalr1-grammar", case, "grammar is LALR(1) but the table has %d multi-action cells" % multi_cells)


def replay(case, ctx):
    g = cfg.G.from_json(case["g"])
    mon = TableMonitor()
    try:
        # the stored grammar already contains the LAYOUT rule if any
        text = case["grammar"]
        ref = cfg.LR1(g, case["start"])
        pg = pgx.grammar(text)
        # earlier tables of the sequence, on the same Grammar object
        for kind0, start0 in case.get("sequence", [])[:-1]:
            with pgx.quiet():
                T.create_table(pg, itemset_type=LR_1 if kind0 == "LALR" else LR_0, start_production=pg.get_production_id(start0), prefer_shifts=False, prefer_shifts_over_empty=False)
        mon.created = 0
        mon.budget = 50 * (len(ref.states) + 1) * (len(g.nts) + len(g.terms) + 1)
        try:
            with pgx.quiet():
                table = T.create_table(
                    pg,
                    itemset_type=LR_1 if case["kind"] == "LALR" else LR_0,
                    start_production=pg.get_production_id(case["start"]),
                    prefer_shifts=False,
                    prefer_shifts_over_empty=False,
                )
        except StateBudgetExceeded as e:
            ctx.violation("construction-diverges", case, str(e))
            return
        finally:
            mon.budget = None
        judge_table(ctx, g, pg, table, ref, case["kind"], case)
    finally:
        mon.uninstall()
