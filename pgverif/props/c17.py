"""C17 - with consume_input off, results parse sentence prefixes; GLR finds them all."""

from pgverif import cfg, findings, glrobs, pgx
from pgverif.mon.gss import GssMonitor
from pgverif.mon.lr import LRMonitor
from pgverif.props import glrwork
from pgverif.props.c01 import leaves_read_input  # noqa: F401

ID = "C17"
LEVEL = "exploration"
RULE = (
    "cases = (acyclic grammar, parser GLR lexical_disambiguation off|on / LR, input): corpus + random acyclic grammars (20% over "
    "overlapping vocabularies for GLR) x all strings over the alphabet up to the bound (sentences followed by arbitrary "
    "continuations), some with layout; oracle = reference chart: the set of trees of every prefix (ending at a token boundary) "
    "that is a sentence. GLR(consume_input=False): the distinct trees of the forest equal that set, each once, SyntaxError iff the "
    "set is empty; LR(consume_input=False): the returned tree is a member of the set. Non-trivial = input with >= 2 sentence "
    "prefixes, or a sentence prefix followed by a non-empty continuation; distinct = (grammar, parser, input)."
)
ASSUMPTIONS = [
    "reference chart (pgverif/cfg.py Chart.sentence_prefix_ends / trees)",
    "losses / duplicates are attributed to KF-C02-1 / KF-C03-1 only through the GSS monitor, exactly as in C02 / C03",
]


def plan(tier):
    return {"nshards": 16, "budget_s": 40 if tier == "quick" else 400}


def required(tier):
    return {
        "nontrivial": 3000 if tier == "quick" else 30000,
        "glr.forests_compared": 5000,
        "glr.ld_on.forests_compared": 1500,
        "glr.precomputed_table.forests_compared": 1500,
        "glr.rejections_agree": 3000,
        "glr.multi_prefix_inputs": 1000,
        "lr.trees_judged": 2000,
        "lr.rejections_agree": 1000,
        "lr.returned_positions_judged": 800,
        "with_continuation": 2000,
        "grammars.with_priorities": 100,
        "glr.root_spans_checked": 5000,
    }


def run(ctx):
    gmon = GssMonitor(check_closure=True)
    gmon.install()
    global LMON
    lmon = LMON = LRMonitor(record_events=True)
    lmon.install()
    maxlen = 5 if ctx.tier == "quick" else 6
    try:
        for name, g, alphabet in glrwork.grammar_stream(ctx, acyclic=True, overlap_share=0.2):
            if not ctx.more():
                break
            one_grammar(ctx, gmon, g, alphabet, maxlen)
    finally:
        gmon.uninstall()
        lmon.uninstall()


def one_grammar(ctx, gmon, g, alphabet, maxlen):
    if not glrwork.has_overlap(g) and ctx.rng.random() < 0.4:
        # terminal priorities do not change the language of a non-overlapping vocabulary
        # (at most one terminal matches at a position) but drive the scanner's early exits
        td = {t: cfg.TDef("str", t, prior=ctx.rng.choice([5, 10, 10, 15, 20])) for t in g.terms}
        g = cfg.G(g.prods, g.start, td)
        ctx.count("grammars.with_priorities")
    text = g.text()
    if len(alphabet) >= 3 and maxlen > 4:
        maxlen = 4
    overlap = glrwork.has_overlap(g)
    try:
        with pgx.watchdog(30):
            pg = pgx.grammar(text)
            parsers = [("GLR", pgx.glr(pg, consume_input=False))]
            # a parser given the precomputed table keeps the GLR defaults (no lexical disambiguation)
            parsers.append(("GLR-table", pgx.glr(pg, table=parsers[0][1].table, consume_input=False)))
            # the documented pass-through callback must change nothing
            parsers.append(("GLR-ctr", pgx.glr(pgx.grammar(text), consume_input=False, custom_token_recognition=lambda head, get_tokens: get_tokens())))
            if not overlap:
                parsers.append(("GLR-ld", pgx.glr(pgx.grammar(text), consume_input=False, lexical_disambiguation=True)))
                try:
                    parsers.append(("LR", pgx.lr(pgx.grammar(text), consume_input=False, build_tree=True)))
                    parsers.append(("LR-pos", pgx.lr(pgx.grammar(text), consume_input=False, build_tree=True, return_position=True)))
                except Exception:  # noqa: BLE001
                    pass
    except pgx.CaseTimeout:
        ctx.inconc("construction timeout")
        return
    except Exception as e:  # noqa: BLE001
        ctx.count("construction_failed:" + type(e).__name__)
        return
    pkeys = pgx.prod_keys(pg)
    case0 = {"grammar": text, "g": g.to_json()}
    for w in cfg.all_strings(alphabet, maxlen):
        inp = glrwork.relayout(w, ctx.rng) if ctx.rng.random() < 0.25 else w
        chart = cfg.Chart(g, inp)
        ends = chart.sentence_prefix_ends()
        total = 0
        ref = set()
        big = False
        for j in ends:
            c = chart.count(g.start, chart.p0, j)
            total += c
            if total > 400:
                big = True
                break
            for t in chart.trees(g.start, chart.p0, j):
                ref.add(pgx.ref_tree_form(t, g))
        if big:
            continue
        for name, parser in parsers:
            check(ctx, gmon, g, pkeys, parser, name, dict(case0, input=inp, parser=name), inp, ends, ref, chart)


def check(ctx, gmon, g, pkeys, parser, name, case, inp, ends, ref, chart):
    key = (case["grammar"], name, inp)
    n = len(inp)
    continuation = bool(ends) and min(ends) < cfg.skip_ws(inp, n) and any(j < n for j in ends)
    nontrivial = len(ends) >= 2 or continuation
    if LMON is not None:
        del LMON.events[:]
    try:
        with pgx.watchdog(30):
            if name in ("LR", "LR-pos"):
                kind, val = pgx.outcome(parser.parse, inp)
            else:
                o = glrobs.parse_glr(parser, inp)
                kind, val = o.kind, o
    except pgx.CaseTimeout:
        ctx.inconc("timeout")
        return
    except pgx.BudgetExceeded:
        ctx.count("diverged_not_judged")
        return
    ctx.case(key, nontrivial, sample={"grammar": case["grammar"], "parser": name, "input": inp, "sentence_prefix_ends": ends})
    if continuation:
        ctx.count("with_continuation")
    if name in ("LR", "LR-pos"):
        if kind == "exc":
            import parglare

            if isinstance(val, parglare.DisambiguationError):
                return
            ctx.violation("unexpected-exception:" + type(val).__name__, case, str(val)[:200])
            return
        if kind == "syntax":
            ctx.count("lr.rejections_agree" if not ref else "lr.rejects_although_prefix_exists_not_judged")
            return
        ctx.count("lr.trees_judged")
        if name == "LR-pos":
            # return_position=True: (tree, position); the position is where the parsed prefix
            # ends, at most the layout after its last token further
            if not (isinstance(val, tuple) and len(val) == 2):
                ctx.violation("lr-return-position-shape", case, "return_position=True returned %s" % type(val).__name__)
                return
            val, pos = val
            leaves = pgx.tree_leaves(val)
            last_end = leaves[-1].end_position if leaves else 0
            ctx.count("lr.returned_positions_judged")
            if not (type(pos) is int and last_end <= pos <= cfg.skip_ws(inp, last_end)):
                ctx.violation("lr-returned-position-is-not-the-prefix-end", case, "returned position %s, the last token of the returned tree ends at %s (layout up to %s)" % (pos, last_end, cfg.skip_ws(inp, last_end)))
                return
        form = pgx.tree_form(val, pkeys)
        if form not in ref:
            ctx.violation("lr-result-is-not-a-sentence-prefix", case, "Parser(consume_input=False) returned %s which is not a derivation of a sentence prefix (prefix ends %s)" % (str(form)[:300], ends))
        return
    o = val
    if kind == "exc":
        ctx.violation("unexpected-exception:" + type(o.exc).__name__, case, str(o.exc)[:200])
        return
    if kind == "syntax":
        if ref:
            known = findings.lost_derivations_known(g, gmon)
            if known is None and name == "GLR-ld" and stop_loses(g, inp, ends):
                known = "KF-C17-1"
            ctx.violation("rejects-although-a-prefix-is-a-sentence", case, "SyntaxError but prefixes ending at %s are sentences" % ends, known=known)
        else:
            ctx.count("glr.rejections_agree")
        return
    if not ref:
        ctx.violation("accepts-without-sentence-prefix", case, "forest returned but no prefix is a sentence")
        return
    if o.loop:
        ctx.violation("loop-on-acyclic-grammar", case, "LoopError on an acyclic grammar")
        return
    if o.len > 1500:
        return
    forms = [pgx.tree_form(o.forest[i], pkeys) for i in range(o.len)]
    ctx.count("glr.forests_compared")
    # each tree is the tree of *its* prefix: its root must not reach beyond the layout
    # that follows its last leaf (nor start after its first leaf)
    for i in range(min(o.len, 40)):
        t = o.forest[i]
        leaves = pgx.tree_leaves(t)
        last_end = leaves[-1].end_position if leaves else None
        limit = cfg.skip_ws(inp, last_end) if leaves else cfg.skip_ws(inp, 0)
        s0, e0 = t.start_position, t.end_position
        ctx.count("glr.root_spans_checked")
        if not (type(e0) is int and e0 <= limit and (not leaves or (e0 >= last_end or e0 >= leaves[0].start_position))):
            ctx.violation("tree-span-exceeds-its-prefix", dict(case, index=i), "forest[%d] has root span %s-%s but its leaves end at %s (prefix ends at %s)" % (i, s0, e0, last_end, limit))
            return
        if leaves and type(s0) is int and s0 > leaves[0].start_position:
            ctx.violation("tree-span-exceeds-its-prefix", dict(case, index=i), "forest[%d] root starts at %s after its first leaf at %s" % (i, s0, leaves[0].start_position))
            return
    if name == "GLR-ld":
        ctx.count("glr.ld_on.forests_compared")
    if name == "GLR-table":
        ctx.count("glr.precomputed_table.forests_compared")
    if len(ends) >= 2:
        ctx.count("glr.multi_prefix_inputs")
    got = set(forms)
    extra = got - ref
    if extra:
        ctx.violation("tree-is-not-a-sentence-prefix-derivation", case, "forest contains %s" % (str(sorted(extra, key=str)[0])[:300]))
        return
    missing = ref - got
    if missing:
        known = findings.lost_derivations_known(g, gmon)
        if known is None and name == "GLR-ld":
            # ends of the prefixes whose derivations are missing
            miss_ends = set()
            for j in ends:
                forms_j = set(pgx.ref_tree_form(t, g) for t in chart.trees(g.start, chart.p0, j))
                if forms_j & missing:
                    miss_ends.add(j)
            if stop_loses(g, inp, sorted(miss_ends)):
                known = "KF-C17-1"
        ctx.violation("prefix-derivation-missing", case, "%d of %d derivations of sentence prefixes (ends %s) are missing, e.g. %s" % (len(missing), len(ref), ends, str(sorted(missing, key=str)[0])[:200]), known=known)
        return
    if len(forms) != len(got):
        dups = gmon.duplicates(o.forest.result)
        known = findings.duplicate_packing_known(dups, gmon)
        if known and glrobs.identity_count(o.forest, dedupe=True) != len(got):
            known = None
        ctx.violation("derivation-more-than-once", case, "%d trees, %d distinct" % (len(forms), len(got)), known=known)


def stop_loses(g, inp, ends):
    """KF-C17-1 classifier, from what the scanner monitor observed in this very
    parse: at every given prefix end there was a scanner call in a state that
    offers STOP (input need not be consumed) whose result did not contain STOP
    because a regular token was returned instead."""
    from parglare.grammar import STOP

    if not ends or LMON is None:
        return False
    dropped = set()
    for (ps, state, pos, toks) in LMON.events:
        if STOP in state.actions and toks and not any(t.symbol is STOP for t in toks):
            dropped.add(pos)
    return all(j in dropped for j in ends)


LMON = None


def replay(case, ctx):
    g = cfg.G.from_json(case["g"])
    gmon = GssMonitor(check_closure=True)
    gmon.install()
    global LMON
    lmon = LMON = LRMonitor(record_events=True)
    lmon.install()
    try:
        pg = pgx.grammar(case["grammar"])
        name = case["parser"]
        if name == "GLR":
            parser = pgx.glr(pg, consume_input=False)
        elif name == "GLR-table":
            parser = pgx.glr(pg, table=pgx.glr(pg, consume_input=False).table, consume_input=False)
        elif name == "GLR-ctr":
            parser = pgx.glr(pg, consume_input=False, custom_token_recognition=lambda head, get_tokens: get_tokens())
        elif name == "GLR-ld":
            parser = pgx.glr(pg, consume_input=False, lexical_disambiguation=True)
        elif name == "LR-pos":
            parser = pgx.lr(pg, consume_input=False, build_tree=True, return_position=True)
        else:
            parser = pgx.lr(pg, consume_input=False, build_tree=True)
        inp = case["input"]
        chart = cfg.Chart(g, inp)
        ends = chart.sentence_prefix_ends()
        ref = set()
        for j in ends:
            for t in chart.trees(g.start, chart.p0, j):
                ref.add(pgx.ref_tree_form(t, g))
        check(ctx, gmon, g, pgx.prod_keys(pg), parser, name, case, inp, ends, ref, chart)
    finally:
        gmon.uninstall()
        lmon.uninstall()
