"""C03 - packing, counting and indexing of the forest are consistent."""

from parglare.exceptions import LoopError

from pgverif import cfg, findings, glrobs, pgx
from pgverif.mon.gss import GssMonitor
from pgverif.props import glrwork

ID = "C03"
LEVEL = "exploration"
RULE = (
    "cases = (grammar, LALR|SLR, sentence) as in C02 plus cyclic grammars (LoopError clause) and highly ambiguous grammars with "
    "inputs up to 14 tokens (big integer counts); per forest: len == solutions == independent count of distinct trees (DP over the "
    "canonical packed forest), no link holds identical alternatives (SPPF walk by link identity), ambiguities == independent recount, "
    "forest[i] pairwise distinct / equal lazy vs non-lazy vs repeated / get_first_tree == forest[0] / iteration agrees, indices "
    "len, len+7, 10**30 raise IndexError, big random indices decode to valid distinct trees, LoopError only when the reference "
    "chart says infinitely many derivations. Non-trivial = forest with >=2 trees or LoopError case; distinct = (grammar, tables, input)."
)
ASSUMPTIONS = [
    "distinct trees of a forest are counted on its canonical form (symbol, span, production, child spans); inputs carry no layout so spans are exact",
    "KF-C03-1 duplicates are attributed through the reduce-event log of the GSS monitor only",
]

HIGHLY_AMBIGUOUS = [
    ("E: E E | a", "a", 14),
    ("E: E p E | E m E | n", None, 0),
    ("S: S S S | S S | b", "b", 10),
    ("S: A S | b; A: S | a", None, 0),
    ("S: a S a | a", "a", 13),
]


def plan(tier):
    return {"nshards": 16, "budget_s": 40 if tier == "quick" else 420}


def required(tier):
    return {
        "parsers.with_accept_all_filter": 20,
        "parsers.prefix_mode": 20,
        "nontrivial": 1500 if tier == "quick" else 15000,
        "forests": 5000,
        "index.out_of_range_checked": 5000,
        "index.trees_compared": 20000,
        "index.big_random": 50,
        "loop.raised": 20,
        "count.big": 10,
        "first_tree_compared": 5000,
        "gss.merge": 200,
    }


def run(ctx):
    from pgverif.mon.contracts import Contracts

    con = Contracts(("get_tree",))
    con.install()
    mon = GssMonitor(check_closure=False)
    mon.install()
    maxlen = 5 if ctx.tier == "quick" else 6
    try:
        if ctx.mine(0) or ctx.mine(1):
            big_counts(ctx, mon)
        for name, g, alphabet in glrwork.grammar_stream(ctx, acyclic=False, tiny=(ctx.tier == "thorough"), eps_weights=(1, 1, 2, 3)):
            if not ctx.more():
                break
            one_grammar(ctx, mon, name, g, alphabet, maxlen)
    finally:
        mon.uninstall()
        con.uninstall()
    con.report(ctx)
    for k, v in mon.totals.items():
        ctx.count("gss." + k, v)


def big_counts(ctx, mon):
    for spec, letter, n in HIGHLY_AMBIGUOUS:
        g = cfg.G_(spec)
        text = g.text()
        pg = pgx.grammar(text)
        for tables in ("LALR", "SLR"):
            parser = pgx.glr(pg, tables=pgx.LALR if tables == "LALR" else pgx.SLR)
            pkeys = pgx.prod_keys(pg)
            if letter:
                inputs = [letter * k for k in range(7, n + 1) if ctx.mine(k)]
            elif "p" in g.terms:
                inputs = ["n" + "".join(ctx.rng.choice("pm") + "n" for _ in range(k)) for k in range(5, 11) if ctx.mine(k)]
            else:
                inputs = ["".join(ctx.rng.choice("ab") for _ in range(k)) + "b" for k in range(6, 12) if ctx.mine(k)]
            for w in inputs:
                check_input(ctx, mon, g, pg, parser, pkeys, {"grammar": text, "g": g.to_json(), "tables": tables, "input": w}, w, tree_limit=120)


def accept_all(context, from_state, to_state, action, production, subresults):
    return True


def one_grammar(ctx, mon, name, g, alphabet, maxlen):
    text = g.text(inline=ctx.rng.random() < 0.3)
    ctx.count("grammar.cyclic" if g.cyclic() else "grammar.acyclic")
    if len(alphabet) >= 3 and maxlen > 4:
        maxlen = 4
    for tables in ("LALR", "SLR"):
        # a dynamic filter that accepts everything changes nothing about the forest - but the
        # driver then runs its filter code path at every link
        filt = ctx.rng.random() < 0.2
        if filt:
            ctx.count("parsers.with_accept_all_filter")
        # forests of sentence prefixes (consume_input=False) merge several accepted heads into one
        # root: packing, counting and indexing must be consistent there too
        prefix_mode = ctx.rng.random() < 0.15
        if prefix_mode:
            ctx.count("parsers.prefix_mode")
        case0 = {"grammar": text, "g": g.to_json(), "tables": tables, "filter": filt, "prefix_mode": prefix_mode}
        kw = {"dynamic_filter": accept_all} if filt else {}
        if prefix_mode:
            kw["consume_input"] = False
        try:
            with pgx.watchdog(20):
                pg = pgx.grammar(text)
                parser = pgx.glr(pg, tables=pgx.LALR if tables == "LALR" else pgx.SLR, **kw)
        except pgx.CaseTimeout:
            ctx.inconc("construction timeout: %r" % text)
            continue
        except Exception:  # noqa: BLE001
            ctx.count("construction_failed")
            continue
        pkeys = pgx.prod_keys(pg)
        for w in glrwork.inputs_for(g, alphabet, maxlen, ctx.rng, extra_long=3):
            check_input(ctx, mon, g, pg, parser, pkeys, dict(case0, input=w), w)
        if not ctx.more():
            break


def check_input(ctx, mon, g, pg, parser, pkeys, case, inp, tree_limit=250):
    key = (case["grammar"], case["tables"], inp, case.get("filter", False), case.get("prefix_mode", False))
    try:
        with pgx.watchdog(60):
            o = glrobs.parse_glr(parser, inp)
            if o.kind != "forest":
                return
            try:
                judge(ctx, mon, g, pkeys, case, inp, o, key, tree_limit)
            except (pgx.CaseTimeout, pgx.BudgetExceeded):
                raise
            except Exception as e:  # noqa: BLE001
                # the forest API raised on a valid use (valid index, iteration, counting)
                import traceback

                where = traceback.extract_tb(e.__traceback__)[-1]
                ctx.violation(
                    "forest-api-raises:" + type(e).__name__,
                    case,
                    "%s: %s while using the forest on valid indices / iteration (at %s:%s %s)" % (type(e).__name__, str(e)[:150], where.filename.split("/")[-1], where.lineno, where.name),
                )
    except pgx.CaseTimeout:
        ctx.case(key, False)
        ctx.inconc("timeout: %r on %r" % (case["grammar"], inp))
    except pgx.BudgetExceeded as e:
        ctx.case(key, True)
        ctx.violation("glr-diverges", case, "GLR parse exceeded the logical reduce budget: %s" % e)


def judge(ctx, mon, g, pkeys, case, inp, o, key, tree_limit):
    f = o.forest
    ctx.count("forests")
    dups = mon.duplicates(f.result)
    dup_known = findings.duplicate_packing_known(dups, mon)
    if o.loop:
        ctx.case(key, True, sample={"grammar": case["grammar"], "input": inp, "len": "LoopError"})
        ctx.count("loop.raised")
        refcount = cfg.Chart(g, inp, skip=cfg.skip_none).count()
        if refcount != cfg.INF and not case.get("prefix_mode"):
            ctx.violation("loop-error-on-finite", case, "len(forest) raised LoopError but the input has %s derivations" % refcount)
        try:
            f.solutions
            ctx.violation("solutions-vs-len", case, "len raised LoopError but .solutions did not")
        except LoopError:
            pass
        return
    n = o.len
    ctx.case(key, n >= 2, sample={"grammar": case["grammar"], "tables": case["tables"], "input": inp, "len": str(n)})
    if f.solutions != n:
        ctx.violation("solutions-vs-len", case, "len(forest)=%s but forest.solutions=%s" % (n, f.solutions))
        return
    if n > 10**6:
        ctx.count("count.big")
    # --- packing: identical alternatives inside one link -------------------
    if dups:
        ctx.violation(
            "identical-alternatives-in-a-link",
            case,
            "%d links hold identical alternatives, e.g. %s" % (len(dups), dups[:2]),
            known=dup_known,
        )
    # --- the implementation's count vs an independent recount on the same SPPF
    ic = glrobs.identity_count(f, dedupe=False)
    if ic is None:
        ctx.violation("finite-count-on-cyclic-forest", case, "len(forest)=%s but the packed forest is cyclic" % n)
        return
    if ic != n:
        ctx.violation("count-differs-from-independent-recount", case, "len(forest)=%s, independent sum/product recount=%s" % (n, ic))
        return
    # --- count == number of distinct trees the forest represents ------------
    all_forms = None
    if n <= 1500:
        all_forms = [pgx.tree_form(f.get_nonlazy_tree(i), pkeys) for i in range(n)]
        distinct = len(set(all_forms))
        ctx.count("distinct_counted_by_enumeration")
        if distinct != n:
            known = None
            if dup_known and glrobs.identity_count(f, dedupe=True) == distinct:
                known = dup_known
            ctx.violation(
                "count-differs-from-distinct-trees",
                case,
                "len(forest)=%s but it represents %s distinct trees; identical alternatives: %s; count without them: %s"
                % (n, distinct, dups[:2], glrobs.identity_count(f, dedupe=True)),
                known=known,
            )
            if known is None:
                return
    else:
        distinct = None
        # too big to enumerate: the count must equal the reference number of
        # derivations unless a recorded mechanism (loss / duplicates) is at work
        chart = cfg.Chart(g, inp, skip=cfg.skip_none)
        T = chart.count()
        ctx.count("count.compared_with_reference")
        if case.get("prefix_mode"):
            # (the reference counts the derivations of the whole input only)
            pass
        elif T != cfg.INF and n > T and not dups:
            # more trees than derivations exist although no link holds identical alternatives
            ctx.violation("count-exceeds-number-of-derivations", case, "len(forest)=%s, the input has only %s derivations and no link holds identical alternatives" % (n, T))
            return
        if T != cfg.INF and n < T:
            # fewer trees than derivations: lost derivations are C02's business
            ctx.count("count.below_reference_not_judged_here")
    # --- ambiguities --------------------------------------------------------
    amb_distinct, amb_raw = glrobs.ambiguous_links(f)
    try:
        amb = f.ambiguities
    except LoopError:
        amb = None
    if amb is not None and amb != amb_distinct:
        known = dup_known if (dup_known and amb == amb_raw) else None
        ctx.violation("ambiguities-miscounted", case, "forest.ambiguities=%s, links with >1 distinct alternative=%s (with >1 alternative: %s)" % (amb, amb_distinct, amb_raw), known=known)
    ctx.count("ambiguities_compared")
    # --- indexing -----------------------------------------------------------
    for idx in (n, n + 7, n * 3 + 10**30):
        ctx.count("index.out_of_range_checked")
        for getter, nm in ((f.__getitem__, "forest[i]"), (f.get_nonlazy_tree, "get_nonlazy_tree")):
            try:
                t = getter(idx)
                ctx.violation("no-index-error", dict(case, index=str(idx)), "%s with i=%s >= len=%s returned a tree" % (nm, idx, n))
                return
            except IndexError:
                pass
    k = min(n, tree_limit)
    lazy = [pgx.tree_form(f[i], pkeys) for i in range(k)]
    again = [pgx.tree_form(f.get_tree(i), pkeys) for i in range(k)]
    nonlazy = [pgx.tree_form(f.get_nonlazy_tree(i), pkeys) for i in range(k)]
    ctx.count("index.trees_compared", k)
    if lazy != again:
        ctx.violation("repeated-access-differs", case, "forest[i] differs between two accesses")
        return
    if lazy != nonlazy:
        i = next(i for i in range(k) if lazy[i] != nonlazy[i])
        ctx.violation("lazy-vs-nonlazy", dict(case, index=i), "forest[%d] lazy != non-lazy" % i)
        return
    if len(set(lazy)) != k:
        # equal trees at different indices
        known = None
        if dup_known and (distinct is None or glrobs.identity_count(f, dedupe=True) == distinct):
            known = dup_known
        ctx.violation("equal-trees-at-different-indices", case, "%d of the first %d trees are pairwise equal" % (k - len(set(lazy)), k), known=known)
    if all_forms is not None and all_forms[:k] != lazy:
        ctx.violation("lazy-vs-nonlazy", case, "enumeration by get_nonlazy_tree differs from forest[i]")
    first = pgx.tree_form(f.get_first_tree(), pkeys)
    ctx.count("first_tree_compared")
    if first != lazy[0]:
        ctx.violation("first-tree-differs", case, "get_first_tree() != forest[0]")
    # iteration protocols
    if n <= 40:
        it = [pgx.tree_form(t, pkeys) for t in f]
        nl = [pgx.tree_form(t, pkeys) for t in f.nonlazy_iter()]
        if it != lazy or nl != lazy:
            ctx.violation("iteration-differs", case, "iter(forest)/nonlazy_iter() differ from forest[i]")
        ctx.count("iteration_compared")
    # big random indices: decode twice, valid, in the canonical forest
    if n > tree_limit:
        seen = {}
        for _ in range(6):
            i = ctx.rng.randrange(n)
            a = pgx.tree_form(f[i], pkeys)
            b = pgx.tree_form(f.get_nonlazy_tree(i), pkeys)
            ctx.count("index.big_random")
            if a != b:
                ctx.violation("lazy-vs-nonlazy", dict(case, index=str(i)), "forest[%d] lazy != non-lazy" % i)
                return
            if a in seen and seen[a] != i and not dup_known:
                ctx.violation("equal-trees-at-different-indices", dict(case, index=str(i)), "forest[%d] == forest[%d]" % (i, seen[a]))
                return
            seen[a] = i


def replay(case, ctx):
    g = cfg.G.from_json(case["g"])
    mon = GssMonitor(check_closure=False)
    mon.install()
    try:
        pg = pgx.grammar(case["grammar"])
        rkw = {"dynamic_filter": accept_all} if case.get("filter") else {}
        if case.get("prefix_mode"):
            rkw["consume_input"] = False
        parser = pgx.glr(pg, tables=pgx.LALR if case["tables"] == "LALR" else pgx.SLR, **rkw)
        check_input(ctx, mon, g, pg, parser, pgx.prod_keys(pg), case, case["input"])
    finally:
        mon.uninstall()
