"""C04 - LR parser is sound always and exact when its table is deterministic."""

import itertools
import os

from pgverif import cfg, glrobs, pgx
from pgverif.mon.lr import Diverged, LRMonitor
from pgverif.props import glrwork
from pgverif.props.c01 import leaves_read_input

ID = "C04"
LEVEL = "exploration"
RULE = (
    "cases = (productive grammar, prefer_shifts, prefer_shifts_over_empty, LALR|SLR, input): corpus + random grammars (incl. the "
    "silent empty/non-empty reduce pair) for which Parser(build_tree=True) constructs, x all strings over the alphabet up to the bound "
    "with random layout; soundness: accepted => reference chart says sentence and the tree is a derivation reading the input; "
    "exactness on deterministic tables (all cells single, strategies off): reference count <= 1 for every input, every sentence "
    "accepted, GLRParser returns exactly one tree equal to the LR tree. Non-trivial = accepted input, or input of >= 2 characters; "
    "distinct = (grammar, options, input). (state, lookahead) cell coverage is measured by the LR monitor."
)
ASSUMPTIONS = [
    "reference chart (pgverif/cfg.py) decides sentencehood",
    "LR divergence (KF-C11-1, cyclic grammars under a resolution strategy) is decided by configuration repetition and belongs to C11; C04 makes no termination claim",
]


def plan(tier):
    return {"nshards": 16, "budget_s": 40 if tier == "quick" else 420}


def required(tier):
    return {
        "parsers.built_next_to_a_corrupted_cache": 50,
        "grammars.with_layout_rule": 20,
        "tables_only.deterministic_tables_walked": 300,
        "nontrivial": 3000 if tier == "quick" else 30000,
        "parsers.constructed": 500,
        "parsers.deterministic": 50,
        "accepted": 3000,
        "rejected": 3000,
        "deterministic.sentences_accepted": 300,
        "deterministic.glr_equal": 300,
        "cells.exercised": 2000,
        "deterministic.tables_walked": 50,
        "option.ps=True": 100,
        "option.pse=True": 100,
        "option.SLR": 100,
    }


def run(ctx):
    mon = LRMonitor()
    mon.install()
    maxlen = 5 if ctx.tier == "quick" else 6
    try:
        for name, g, alphabet in glrwork.grammar_stream(ctx, overlap_share=0.0, eps_weights=(1, 1, 2, 3)):
            if not ctx.more():
                break
            one_grammar(ctx, mon, g, alphabet, maxlen)
            tables_only(ctx)
    finally:
        mon.uninstall()
    for k, v in mon.c.items():
        ctx.count("lr." + k, v)


def tables_only(ctx, k=12):
    """Exactness at table level on many more (and larger) grammars than the input workload can
    afford: build the table with the strategies off; if it is deterministic it must offer
    every action of the canonical LR(1) automaton (else it rejects some sentence)."""
    rng = ctx.rng
    for _ in range(k):
        if not ctx.more():
            return
        g = cfg.rand_ok_grammar(rng, nnt=rng.choice([3, 4, 4, 5]), terms=rng.choice(["ab", "abc"]), maxalts=rng.choice([2, 3]), maxlen=3, eps_weight=rng.choice([1, 2, 3]))
        if g is None:
            continue
        text = g.text()
        for tables in ("LALR", "SLR"):
            try:
                with pgx.watchdog(10):
                    pg = pgx.grammar(text)
                    parser = pgx.lr(pg, prefer_shifts=False, prefer_shifts_over_empty=False, tables=pgx.LALR if tables == "LALR" else pgx.SLR)
            except Exception:  # noqa: BLE001  (conflicts: not deterministic; timeouts: skipped)
                ctx.count("tables_only.not_deterministic_or_refused")
                continue
            if not all(len(a) == 1 for st in parser.table.states for a in st.actions.values()):
                continue
            ctx.count("tables_only.deterministic_tables_walked")
            lack = glrwork.missing_valid_action(g, pg, parser.table)
            if lack:
                opts = {"prefer_shifts": False, "prefer_shifts_over_empty": False, "tables": tables}
                ctx.case((text, tables, "table-only"), True)
                ctx.violation("valid-action-missing", {"grammar": text, "g": g.to_json(), "opts": opts, "table_only": True}, "deterministic %s table: %s" % (tables, lack))


def grammar_with_corrupted_cache(text):
    """The grammar loaded from a file next to which an undecodable table cache lies (fault
    injection: a .pgc left by an interrupted write); the table is then calculated on the
    library's recovery path - with the options given."""
    import shutil
    import tempfile
    import time

    import parglare

    d = tempfile.mkdtemp(prefix="pgv-c04-")
    try:
        path = os.path.join(d, "g.pg")
        with open(path, "w") as f:
            f.write(text)
        pgc = os.path.join(d, "g.pgc")
        with open(pgc, "w") as f:
            f.write('[{"actions": [')
        t = time.time() + 100
        os.utime(pgc, (t, t))
        with pgx.quiet():
            return parglare.Grammar.from_file(path), d
    except Exception:
        shutil.rmtree(d, ignore_errors=True)
        raise


def one_grammar(ctx, mon, g, alphabet, maxlen):
    meta = {}
    if ctx.rng.random() < 0.3:
        # {nops} / {nopse} switch a resolution strategy off for single productions; soundness must not care
        for pi in range(len(g.prods)):
            if ctx.rng.random() < 0.4:
                meta[pi] = ctx.rng.choice(["nops", "nopse", "nops, nopse"])
        ctx.count("grammars.with_nops_marks")
    if "WS" not in g.terms and "LAYOUT" not in g.nts and not glrwork.has_overlap(g) and ctx.rng.random() < 0.1:
        # a ws-equivalent LAYOUT rule: the layout table and the main table (of either kind) are
        # then built from one Grammar object
        from pgverif.props.c08 import WS_LAYOUT, WS_TERMS

        text = g.text(prod_meta=meta, extra_rules=WS_LAYOUT.strip(), extra_terms=WS_TERMS)
        ctx.count("grammars.with_layout_rule")
    else:
        text = g.text(inline=ctx.rng.random() < 0.3, prod_meta=meta)
    if len(alphabet) >= 3 and maxlen > 4:
        maxlen = 4
    inputs = [(w, glrwork.relayout(w, ctx.rng) if ctx.rng.random() < 0.4 else w) for w in cfg.all_strings(alphabet, maxlen)]
    charts = {}
    for ps, pse, tables in itertools.product([False, True], [False, True], ["LALR", "SLR"]):
        if not ctx.more():
            return
        opts = {"prefer_shifts": ps, "prefer_shifts_over_empty": pse, "tables": tables}
        corrupted = ctx.rng.random() < 0.06
        case0 = {"grammar": text, "g": g.to_json(), "opts": opts, "corrupted_cache": corrupted}
        tmpd = None
        try:
            with pgx.watchdog(20):
                if corrupted:
                    pg, tmpd = grammar_with_corrupted_cache(text)
                    ctx.count("parsers.built_next_to_a_corrupted_cache")
                else:
                    pg = pgx.grammar(text)
                try:
                    parser = pgx.lr(pg, prefer_shifts=ps, prefer_shifts_over_empty=pse, tables=pgx.LALR if tables == "LALR" else pgx.SLR, build_tree=True)
                finally:
                    if tmpd:
                        import shutil

                        shutil.rmtree(tmpd, ignore_errors=True)
        except pgx.CaseTimeout:
            ctx.inconc("construction timeout %r" % text)
            continue
        except Exception as e:  # noqa: BLE001
            ctx.count("parsers.refused:" + type(e).__name__)
            continue
        ctx.count("parsers.constructed")
        ctx.count("option.ps=%s" % ps)
        ctx.count("option.pse=%s" % pse)
        ctx.count("option." + tables)
        det = (not ps) and (not pse) and all(len(a) == 1 for s in parser.table.states for a in s.actions.values())
        glr = None
        if det:
            ctx.count("parsers.deterministic")
            glr = pgx.glr(pgx.grammar(text), tables=pgx.LALR if tables == "LALR" else pgx.SLR)
            # exactness at table level: a deterministic table that lacks an action of the canonical
            # LR(1) automaton rejects some sentence (possibly longer than the inputs tried below)
            from pgverif.props import c05

            before = len(ctx.violations)
            c05.judge_table(ctx, g, pg, parser.table, cfg.LR1(g), tables, dict(case0, note="deterministic table vs canonical LR(1)"))
            ctx.count("deterministic.tables_walked")
            if len(ctx.violations) > before:
                continue
        pkeys = pgx.prod_keys(pg)
        mon.cells = set()
        for w, inp in inputs:
            if inp not in charts:
                charts[inp] = cfg.Chart(g, inp)
            check_input(ctx, g, pg, parser, glr, pkeys, det, dict(case0, input=inp), inp, charts[inp])
        total = sum(len(s.actions) for s in parser.table.states)
        ctx.count("cells.total", total)
        ctx.count("cells.exercised", len(mon.cells))


def check_input(ctx, g, pg, parser, glr, pkeys, det, case, inp, chart):
    key = (case["grammar"], str(case["opts"]), inp)
    sentence = chart.is_sentence()
    try:
        with pgx.watchdog(30):
            o = pgx.outcome(parser.parse, inp)
    except pgx.CaseTimeout:
        ctx.case(key, False)
        ctx.inconc("parse timeout %r on %r" % (case["grammar"], inp))
        return
    except Diverged as e:
        ctx.case(key, True)
        if det:
            ctx.violation("lr-diverges", case, "LR parse does not terminate on a deterministic table: %s" % e)
        else:
            # conflicts resolved by a strategy: termination is C11's business (KF-C11-1)
            ctx.count("diverged_under_resolution_strategy_not_judged")
        return
    except pgx.BudgetExceeded as e:
        ctx.case(key, True)
        ctx.violation("lr-step-budget", case, str(e))
        return
    kind, val = o
    ctx.case(key, kind == "ret" or len(inp.strip()) >= 2, sample={"grammar": case["grammar"], "opts": case["opts"], "input": inp, "sentence": sentence, "outcome": kind})
    if kind == "exc":
        import parglare

        if isinstance(val, parglare.DisambiguationError):
            ctx.count("disambiguation_error")
            return
        ctx.violation("unexpected-exception:" + type(val).__name__, case, "Parser.parse raised %s: %s" % (type(val).__name__, str(val)[:200]))
        return
    if kind == "ret":
        ctx.count("accepted")
        if not sentence:
            ctx.violation("accepts-nonsentence", case, "Parser accepted a non-sentence")
            return
        perrs = pgx.check_derivation_tree(val, pg, pkeys, g.start)
        if perrs:
            ctx.violation("tree-not-a-derivation", case, str(perrs[:3]))
            return
        lerr = leaves_read_input(val, inp)
        if lerr:
            ctx.violation("leaves-do-not-read-input", case, lerr)
            return
        refcount = chart.count()
        if refcount != cfg.INF and refcount <= 300:
            form = pgx.tree_form(val, pkeys)
            if form not in set(pgx.ref_tree_form(t, g) for t in chart.trees()):
                ctx.violation("tree-not-in-reference", case, "LR tree is not a derivation tree of this input: %s" % (str(form)[:300]))
                return
            ctx.count("trees_matched_reference")
    else:
        ctx.count("rejected")
    if det:
        refcount = chart.count()
        if refcount == cfg.INF or refcount > 1:
            ctx.violation("deterministic-table-ambiguous-grammar", case, "every table cell holds one action but the input has %s derivations" % refcount)
            return
        if sentence and kind != "ret":
            ctx.violation("deterministic-rejects-sentence", case, "deterministic LR table rejected a sentence at %s" % val.location.start_position)
            return
        if sentence:
            ctx.count("deterministic.sentences_accepted")
            go = glrobs.parse_glr(glr, inp)
            if go.kind != "forest" or go.loop or go.len != 1:
                ctx.violation("deterministic-glr-not-one-tree", case, "GLR gives %s (len %s) on a deterministic table" % (go.kind, go.len))
                return
            if pgx.tree_form(go.forest[0], pkeys) != pgx.tree_form(val, pkeys):
                ctx.violation("deterministic-glr-differs", case, "GLR tree differs from the LR tree")
                return
            ctx.count("deterministic.glr_equal")


def replay(case, ctx):
    g = cfg.G.from_json(case["g"])
    mon = LRMonitor()
    mon.install()
    try:
        o = case["opts"]
        if case.get("table_only"):
            pg = pgx.grammar(case["grammar"])
            parser = pgx.lr(pg, prefer_shifts=False, prefer_shifts_over_empty=False, tables=pgx.LALR if o["tables"] == "LALR" else pgx.SLR)
            lack = glrwork.missing_valid_action(g, pg, parser.table)
            if lack:
                ctx.violation("valid-action-missing", case, lack)
            return
        tmpd = None
        if case.get("corrupted_cache"):
            pg, tmpd = grammar_with_corrupted_cache(case["grammar"])
        else:
            pg = pgx.grammar(case["grammar"])
        tb = pgx.LALR if o["tables"] == "LALR" else pgx.SLR
        parser = pgx.lr(pg, prefer_shifts=o["prefer_shifts"], prefer_shifts_over_empty=o["prefer_shifts_over_empty"], tables=tb, build_tree=True)
        if tmpd:
            import shutil

            shutil.rmtree(tmpd, ignore_errors=True)
        det = (not o["prefer_shifts"]) and (not o["prefer_shifts_over_empty"]) and all(len(a) == 1 for s in parser.table.states for a in s.actions.values())
        glr = pgx.glr(pgx.grammar(case["grammar"]), tables=tb) if det else None
        check_input(ctx, g, pg, parser, glr, pgx.prod_keys(pg), det, case, case["input"], cfg.Chart(g, case["input"]))
    finally:
        mon.uninstall()
