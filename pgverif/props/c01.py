"""C01 - GLR accepts exactly the language; every obtainable tree is a derivation."""

import time

from pgverif import cfg, findings, glrobs, pgx
from pgverif.mon.gss import GssMonitor
from pgverif.props import glrwork

ID = "C01"
LEVEL = "exploration"
RULE = (
    "cases = (grammar, table kind LALR|SLR, input): fixed adversarial corpus + random productive grammars "
    "(1-4 nonterminals, nullable/cyclic/hidden recursion included, 25% over an overlapping string/regex vocabulary) x all "
    "strings over the token alphabet up to the length bound, half of them with random layout injected; oracle = independent "
    "character level chart (sentence yes/no, packed alternatives, trees). A case is non-trivial when the input is a sentence "
    "or has at least 2 characters; distinct = distinct (grammar text, tables, input)."
)
ASSUMPTIONS = [
    "reference chart (pgverif/cfg.py Chart) is the specification of 'sentence after layout skipping and tokenisation'",
    "lexical overlap cases use equal terminal priorities and the GLR default lexical_disambiguation=False",
    "divergence is decided by a logical budget of GLR reductions per parse, wall clock timeouts are inconclusive",
]


def plan(tier):
    return {"nshards": 16, "budget_s": 40 if tier == "quick" else 420}


def required(tier):
    return {
        "nontrivial": 2000 if tier == "quick" else 20000,
        "gss.limited": 50,
        "gss.merge": 50,
        "gss.fork": 20,
        "gss.eps_reduce": 100,
        "gss.newlink_existing_head": 50,
        "accept.sentence": 500,
        "reject.nonsentence": 500,
        "grammar.cyclic": 3,
        "trees_checked": 1000,
        "grammar.lex_corpus": 4,
        "long_inputs.ge12": 100,
        "tables_walked": 200,
        "grammar.with_layout_rule": 20,
    }


def run(ctx):
    from pgverif.mon.contracts import Contracts

    con = Contracts(("reduce",))
    con.install()
    mon = GssMonitor(check_closure=False)
    mon.install()
    maxlen = 5 if ctx.tier == "quick" else 6
    try:
        for i, (name, g) in enumerate(cfg.LEX_CORPUS):
            if ctx.mine(i):
                lex_grammar(ctx, mon, name, g)
        for name, g, alphabet in glrwork.grammar_stream(ctx, tiny=(ctx.tier == "thorough")):
            if not ctx.more():
                break
            one_grammar(ctx, mon, name, g, alphabet, maxlen)
    finally:
        mon.uninstall()
        con.uninstall()
    con.report(ctx)
    for k, v in mon.totals.items():
        ctx.count("gss." + k, v)


def lex_grammar(ctx, mon, name, g):
    """Vocabulary whose tokens have different lengths and may span layout characters."""
    text = g.text()
    ctx.count("grammar.lex_corpus")
    for tables in ("LALR", "SLR"):
        case0 = {"grammar": text, "g": g.to_json(), "tables": tables}
        pg = pgx.grammar(text)
        parser = pgx.glr(pg, tables=pgx.LALR if tables == "LALR" else pgx.SLR)
        pkeys = pgx.prod_keys(pg)
        for w in cfg.all_strings(cfg.LEX_ALPHABET, 6 if ctx.tier == "quick" else 7):
            check_input(ctx, mon, g, pg, parser, pkeys, dict(case0, input=w), w)


def one_grammar(ctx, mon, name, g, alphabet, maxlen):
    if not glrwork.has_overlap(g) and "WS" not in g.terms and "LAYOUT" not in g.nts and ctx.rng.random() < 0.15:
        # layout skipped by a LAYOUT rule that matches exactly runs of the ws characters: same
        # language; the one parser object then runs its layout sub-parser on input after input
        from pgverif.props.c08 import WS_LAYOUT, WS_TERMS

        text = g.text(extra_rules=WS_LAYOUT.strip(), extra_terms=WS_TERMS)
        ctx.count("grammar.with_layout_rule")
    else:
        text = g.text(inline=ctx.rng.random() < 0.3)
    cyc = g.cyclic()
    ctx.count("grammar.cyclic" if cyc else "grammar.acyclic")
    for t in g.tags():
        ctx.count("grammar.tag." + t)
    if glrwork.has_overlap(g):
        ctx.count("grammar.overlap")
    if len(alphabet) >= 3 and maxlen > 4:
        maxlen = 4
    for tables in ("LALR", "SLR"):
        case0 = {"grammar": text, "g": g.to_json(), "tables": tables}
        try:
            with pgx.watchdog(20):
                pg = pgx.grammar(text)
                parser = pgx.glr(pg, tables=pgx.LALR if tables == "LALR" else pgx.SLR)
        except pgx.CaseTimeout:
            ctx.inconc("construction timeout: %r" % text)
            continue
        except Exception as e:  # noqa: BLE001
            # construction problems belong to C05; count them here
            ctx.count("construction_failed")
            ctx.seen("construction_errors", "%s: %s" % (type(e).__name__, str(e)[:80]))
            continue
        pkeys = pgx.prod_keys(pg)
        # the GLR parser can only accept what its table lets it do: for these (reduced) grammars
        # every action of the canonical LR(1) automaton is needed by some sentence
        if not glrwork.has_overlap(g):
            try:
                with pgx.watchdog(20):
                    lack = glrwork.missing_valid_action(g, pg, parser.table)
                ctx.count("tables_walked")
                if lack:
                    ctx.case((text, tables, "table"), True)
                    ctx.violation("table-lacks-an-action-some-sentence-needs", dict(case0, input=None), lack)
            except pgx.CaseTimeout:
                ctx.count("table_walk_timeout")
        for w in glrwork.inputs_for(g, alphabet, maxlen, ctx.rng, extra_long=2):
            inp = glrwork.relayout(w, ctx.rng, density=0.35 if glrwork.has_overlap(g) else 1.0) if ctx.rng.random() < 0.5 else w
            check_input(ctx, mon, g, pg, parser, pkeys, dict(case0, input=inp), inp)
        # long inputs (several frontiers with two-digit ordinals); the logical budget is
        # raised for them and growth stops once one parse needed many reductions
        mon.reduce_budget = 3000000
        try:
            for w in glrwork.long_inputs(g, alphabet, ctx.rng):
                inp = glrwork.relayout(w, ctx.rng) if ctx.rng.random() < 0.3 else w
                ctx.count("long_inputs")
                if len(w) >= 12:
                    ctx.count("long_inputs.ge12")
                t0 = time.time()
                check_input(ctx, mon, g, pg, parser, pkeys, dict(case0, input=inp), inp, long=True)
                if mon.c["reduce"] > 60000 or time.time() - t0 > 3 or not ctx.more():
                    ctx.count("long_inputs.growth_stopped")
                    break
        finally:
            mon.reduce_budget = 400000
        if not ctx.more():
            break


def check_input(ctx, mon, g, pg, parser, pkeys, case, inp, long=False):
    chart = cfg.Chart(g, inp)
    sentence = chart.is_sentence()
    key = (case["grammar"], case["tables"], inp)
    try:
        with pgx.watchdog(30):
            o = glrobs.parse_glr(parser, inp)
    except pgx.CaseTimeout:
        ctx.case(key, False)
        ctx.inconc("parse timeout: %r on %r" % (case["grammar"], inp))
        return
    except pgx.BudgetExceeded as e:
        ctx.case(key, True)
        if long:
            # polynomial but large: not a divergence verdict for inputs of this length
            ctx.count("long_inputs.budget_not_judged")
            return
        ctx.violation("glr-diverges", case, "GLR parse exceeded the logical reduce budget: %s" % e)
        return
    ctx.case(key, sentence or len(inp.strip()) >= 2, sample={"grammar": case["grammar"], "tables": case["tables"], "input": inp, "sentence": sentence, "outcome": o.kind})
    if o.kind == "exc":
        ctx.violation("unexpected-exception:" + type(o.exc).__name__, case, "GLRParser.parse raised %s: %s (sentence=%s)" % (type(o.exc).__name__, str(o.exc)[:200], sentence))
        return
    if o.kind == "syntax":
        if sentence:
            # attribution: re-run the same parse with the GSS closure monitor on
            known = None
            mon.do_closure = True
            try:
                with pgx.watchdog(30):
                    glrobs.parse_glr(parser, inp)
                known = findings.lost_derivations_known(g, mon)
            except (pgx.CaseTimeout, pgx.BudgetExceeded):
                pass
            finally:
                mon.do_closure = False
            ctx.violation(
                "rejects-sentence",
                case,
                "SyntaxError at %s but the input is a sentence (%s derivations); closure monitor: %s"
                % (o.err.location.start_position, chart.count(), mon.closure_missing[:3]),
                known=known,
            )
        else:
            ctx.count("reject.nonsentence")
        return
    # forest
    if not sentence:
        ctx.violation("accepts-nonsentence", case, "forest returned for a non-sentence")
        return
    ctx.count("accept.sentence")
    f = o.forest
    errs = glrobs.sppf_validate(f, pg, pkeys, g.start, len(inp), inp=inp)
    if errs:
        ctx.violation("invalid-packed-alternative", case, "SPPF invalid: %s" % (errs[:3],))
        return
    ctx.count("sppf_validated")
    if o.loop:
        ctx.count("forest.loop")
        # cyclic forest: trees cannot be enumerated; the packed check above is the statement
        if chart.count() != cfg.INF:
            pass  # judged by C03
        return
    # explicit trees
    n = o.len
    limit = 4 if long else 60
    idxs = list(range(min(n, limit)))
    if n > limit:
        idxs += [ctx.rng.randrange(n) for _ in range(2 if long else 5)]
    t_trees = time.time()
    ref_forms = None
    refcount = chart.count()
    if refcount != cfg.INF and refcount <= 400:
        ref_forms = set(pgx.ref_tree_form(t, g) for t in chart.trees())
    if long:
        try:
            with pgx.watchdog(6):
                check_trees(ctx, g, pg, pkeys, case, inp, f, idxs, ref_forms, long, t_trees)
        except pgx.CaseTimeout:
            ctx.count("long_inputs.tree_checks_cut_short")
    else:
        check_trees(ctx, g, pg, pkeys, case, inp, f, idxs, ref_forms, long, t_trees)


def check_trees(ctx, g, pg, pkeys, case, inp, f, idxs, ref_forms, long, t_trees):
    for i in idxs:
        if long and time.time() - t_trees > 4:
            # lazy trees of very large forests are slow to unfold; the packed validation above stands
            ctx.count("long_inputs.tree_checks_cut_short")
            break
        t = f[i]
        ctx.count("trees_checked")
        perrs = pgx.check_derivation_tree(t, pg, pkeys, g.start)
        if perrs:
            ctx.violation("tree-not-a-derivation", dict(case, index=i), "forest[%d]: %s" % (i, perrs[:3]))
            return
        lerr = leaves_read_input(t, inp)
        if lerr:
            ctx.violation("leaves-do-not-read-input", dict(case, index=i), "forest[%d]: %s" % (i, lerr))
            return
        if ref_forms is not None:
            form = pgx.tree_form(t, pkeys)
            if form not in ref_forms:
                ctx.violation("tree-not-in-reference", dict(case, index=i), "forest[%d] is not a derivation tree of this input: %s" % (i, str(form)[:300]))
                return
            ctx.count("trees_matched_reference")


def leaves_read_input(t, inp):
    """Leaves left to right are exactly the input's tokens: each leaf's value is
    the input slice at its span, spans are ordered and only layout lies between."""
    leaves = pgx.tree_leaves(t)
    pos = 0
    for l in leaves:
        s, e = l.start_position, l.end_position
        if not (isinstance(s, int) and isinstance(e, int)) or s < pos or e > len(inp) or s >= e:
            return "leaf %s span %s-%s out of order (pos %d)" % (l.symbol.name, s, e, pos)
        if inp[pos:s].strip(cfg.WS) != "":
            return "non-layout text %r skipped before leaf at %d" % (inp[pos:s], s)
        if l.value != inp[s:e]:
            return "leaf value %r != input[%d:%d]=%r" % (l.value, s, e, inp[s:e])
        pos = e
    if inp[pos:].strip(cfg.WS) != "":
        return "input text %r after the last leaf" % inp[pos:]
    return None


def replay(case, ctx):
    g = cfg.G.from_json(case["g"])
    mon = GssMonitor(check_closure=False)
    mon.install()
    try:
        pg = pgx.grammar(case["grammar"])
        parser = pgx.glr(pg, tables=pgx.LALR if case["tables"] == "LALR" else pgx.SLR)
        if case["input"] is None:
            lack = glrwork.missing_valid_action(g, pg, parser.table)
            if lack:
                ctx.violation("table-lacks-an-action-some-sentence-needs", case, lack)
            return
        long = len(case["input"]) >= 8
        if long:
            mon.reduce_budget = 3000000
        check_input(ctx, mon, g, pg, parser, pgx.prod_keys(pg), case, case["input"], long=long)
    finally:
        mon.uninstall()
