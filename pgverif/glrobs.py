"""Observation of one GLR parse at the client boundary + SPPF walks."""

import parglare
from parglare.exceptions import LoopError
from parglare.glr import Parent

from pgverif import pgx


class Obs:
    __slots__ = ("kind", "exc", "forest", "len", "loop", "forms", "forms_complete", "packed", "sppf_links", "err")

    def __init__(self):
        self.kind = None
        self.exc = None
        self.forest = None
        self.len = None
        self.loop = False
        self.forms = None
        self.forms_complete = False
        self.packed = None
        self.sppf_links = 0
        self.err = None


def parse_glr(parser, text, **kw):
    o = Obs()
    try:
        with pgx.quiet():
            f = parser.parse(text, **kw)
    except parglare.SyntaxError as e:
        o.kind = "syntax"
        o.err = e
        return o
    except (pgx.CaseTimeout, pgx.BudgetExceeded):
        raise
    except Exception as e:  # noqa: BLE001
        o.kind = "exc"
        o.exc = e
        return o
    o.kind = "forest"
    o.forest = f
    try:
        o.len = len(f)
    except LoopError:
        o.loop = True
    except OverflowError:
        # len() of a huge forest does not fit a C ssize_t; use .solutions
        o.len = f.solutions
    return o


def forest_packed(forest, pkeys):
    """Canonical packed alternatives reachable from forest.result:
    {((sym,start,end), prod key, child spans)} and the number of links."""
    out = set()
    seen = set()
    st = [forest.result]
    while st:
        par = st.pop()
        if id(par) in seen:
            continue
        seen.add(id(par))
        for poss in par.possibilities:
            if poss.is_nonterm():
                key = (poss.production.symbol.name, par.start_position, par.end_position)
                spans = []
                for c in poss.children:
                    # c is a Parent link
                    if c.token is not None or (c.possibilities and c.possibilities[0].is_term()):
                        spans.append((c.possibilities[0].symbol.name, c.start_position, c.end_position))
                    else:
                        spans.append((c.possibilities[0].production.symbol.name, c.start_position, c.end_position))
                    st.append(c)
                out.add((key, pkeys[poss.production.prod_id], tuple(spans)))
    return out, len(seen)


def forest_links(forest, pkeys):
    """Per reachable link: ((sym,start,end), set of (prod key, child spans))."""
    out = []
    seen = set()
    st = [forest.result]
    while st:
        par = st.pop()
        if id(par) in seen:
            continue
        seen.add(id(par))
        alts = set()
        key = None
        for poss in par.possibilities:
            if poss.is_nonterm():
                key = (poss.production.symbol.name, par.start_position, par.end_position)
                spans = []
                for c in poss.children:
                    p0 = c.possibilities[0]
                    spans.append(((p0.symbol.name if p0.is_term() else p0.production.symbol.name), c.start_position, c.end_position))
                    st.append(c)
                alts.add((pkeys[poss.production.prod_id], tuple(spans)))
        if key is not None:
            out.append((key, alts))
    return out


def _norm_span(inp, s, e, ws):
    """Span with every position inside a layout run mapped to the start of that
    run (the placement of empty nodes and of node ends inside layout is C08's
    subject, KF-C08-2; here only the covered tokens matter)."""
    if not (isinstance(s, int) and isinstance(e, int)) or s < 0 or e < 0 or s > len(inp) or e > len(inp):
        return ("bad", s, e)
    while s > 0 and inp[s - 1] in ws:
        s -= 1
    while e > 0 and inp[e - 1] in ws:
        e -= 1
    if s > e:
        return ("bad", s, e)
    return (s, e)


def sppf_validate(forest, pg, pkeys, start_name, text_len, inp=None, ws=" \t\n\r"):
    """C01 packed form of 'every obtainable tree is a derivation': local
    validity of every reachable packed alternative.  With the input given the
    spans are judged too (modulo layout at the ends): every alternative of a
    link covers the same text, the children of an alternative tile it in order
    and the root covers the whole input."""
    errs = []
    valid = set(pkeys[p.prod_id] for p in pg.productions[1:])
    seen = set()
    root = forest.result
    for poss in root.possibilities:
        if not poss.is_nonterm() or poss.production.symbol.name != start_name:
            errs.append(("root alternative is not the start symbol", str(poss)))
    st = [root]
    while st:
        par = st.pop()
        if id(par) in seen:
            continue
        seen.add(id(par))
        if not isinstance(par, Parent):
            errs.append(("non-link child", str(par)))
            continue
        if not par.possibilities:
            errs.append(("link without alternatives", str(par)))
        for poss in par.possibilities:
            if poss.is_term():
                continue
            key = pkeys.get(poss.production.prod_id)
            if key not in valid:
                errs.append(("unknown production", str(poss.production)))
                continue
            kids = []
            for c in poss.children:
                if not isinstance(c, Parent) or not c.possibilities:
                    errs.append(("bad child", str(c)))
                    kids.append(None)
                    continue
                p0 = c.possibilities[0]
                names = set(p.symbol.name for p in c.possibilities)
                if len(names) != 1:
                    errs.append(("link mixes symbols", sorted(names)))
                kids.append(p0.symbol.name)
                st.append(c)
            if tuple(kids) != key[1]:
                errs.append(("children do not match rhs", key, tuple(kids)))
            if inp is not None and None not in kids:
                spans = [_norm_span(inp, c.possibilities[0].start_position, c.possibilities[0].end_position, ws) for c in poss.children]
                own = _norm_span(inp, poss.start_position, poss.end_position, ws)
                if own[0] == "bad" or any(x[0] == "bad" for x in spans):
                    errs.append(("span outside of the input or inverted", own, spans))
                elif spans:
                    for a, b in zip(spans, spans[1:]):
                        if a[1] != b[0]:
                            errs.append(("children of an alternative do not tile the text", poss.production.symbol.name, spans))
                            break
                    if (spans[0][0], spans[-1][1]) != own:
                        errs.append(("alternative's span is not what its children cover", poss.production.symbol.name, own, spans))
                elif own[0] != own[1]:
                    errs.append(("empty alternative with a non-empty span", poss.production.symbol.name, own))
            # every alternative of a link derives the link's symbol
        syms = set(p.symbol.name for p in par.possibilities)
        if len(syms) > 1:
            errs.append(("alternatives of one link derive different symbols", sorted(syms)))
        if inp is not None:
            covers = set(_norm_span(inp, p.start_position, p.end_position, ws) for p in par.possibilities)
            if len(covers) > 1:
                errs.append(("alternatives of one link cover different text", sorted(syms), sorted(map(str, covers))))
            elif par is root and covers != {_norm_span(inp, 0, len(inp), ws)}:
                errs.append(("root does not cover the input", sorted(map(str, covers))))
        if len(errs) > 10:
            break
    return errs


def forest_forms(forest, pkeys, limit, lazy=True):
    """Canonical forms of forest[i], i < min(len, limit)."""
    n = forest.solutions
    out = []
    for i in range(min(n, limit)):
        t = forest.get_tree(i) if lazy else forest.get_nonlazy_tree(i)
        out.append(pgx.tree_form(t, pkeys))
    return out, n <= limit


def canonical_count(forest, pkeys):
    """Number of distinct trees the forest represents: DP over the canonical
    packed forest (symbol, span) -> set of (production, child spans).
    Returns None if the canonical forest is cyclic."""
    packed, _ = forest_packed(forest, pkeys)
    alts = {}
    for key, pk, spans in packed:
        alts.setdefault(key, set()).add((pk, spans))
    root = forest.result
    rkeys = set()
    for poss in root.possibilities:
        rkeys.add((poss.production.symbol.name, root.start_position, root.end_position))
    memo = {}
    visiting = set()

    def rec(k):
        if k not in alts:
            return 1  # terminal
        if k in memo:
            return memo[k]
        if k in visiting:
            raise RecursionError("cyclic")
        visiting.add(k)
        tot = 0
        for pk, spans in alts[k]:
            p = 1
            for s in spans:
                p *= rec(s)
            tot += p
        visiting.discard(k)
        memo[k] = tot
        return tot

    import sys

    old = sys.getrecursionlimit()
    sys.setrecursionlimit(max(old, 20000))
    try:
        return sum(rec(k) for k in rkeys)
    except RecursionError:
        return None
    finally:
        sys.setrecursionlimit(old)


def identity_count(forest, dedupe):
    """Independent recount of trees over the real SPPF by link identity;
    with dedupe=True identical alternatives (same production and identical
    child links) are counted once."""
    memo = {}
    visiting = set()

    def link(par):
        k = id(par)
        if k in memo:
            return memo[k]
        if k in visiting:
            raise RecursionError("cyclic")
        visiting.add(k)
        tot = 0
        seen = set()
        for poss in par.possibilities:
            if poss.is_term():
                kk = ("T", poss.symbol.name, poss.start_position, poss.end_position)
                if dedupe and kk in seen:
                    continue
                seen.add(kk)
                tot += 1
                continue
            kk = (poss.production.prod_id, tuple(id(c) for c in poss.children))
            if dedupe and kk in seen:
                continue
            seen.add(kk)
            p = 1
            for c in poss.children:
                p *= link(c)
            tot += p
        visiting.discard(k)
        memo[k] = tot
        return tot

    import sys

    old = sys.getrecursionlimit()
    sys.setrecursionlimit(max(old, 20000))
    try:
        return link(forest.result)
    except RecursionError:
        return None
    finally:
        sys.setrecursionlimit(old)


def ambiguous_links(forest):
    """Independent recount of links with more than one *distinct* alternative,
    and of links with more than one alternative at all."""
    seen = set()
    st = [forest.result]
    distinct = 0
    raw = 0
    while st:
        par = st.pop()
        if id(par) in seen:
            continue
        seen.add(id(par))
        keys = set()
        for poss in par.possibilities:
            if poss.is_nonterm():
                keys.add((poss.production.prod_id, tuple(id(c) for c in poss.children)))
                st.extend(poss.children)
            else:
                keys.add(("T", poss.symbol.name, poss.start_position, poss.end_position))
        if len(keys) > 1:
            distinct += 1
        if len(par.possibilities) > 1:
            raw += 1
    return distinct, raw
