"""One shard of one property check (or a replay), run in its own process."""

import argparse
import json
import sys
import traceback

from pgverif import runner


def main():
    ap = argparse.ArgumentParser()
    ap.add_argument("prop")
    ap.add_argument("--tier", default="quick")
    ap.add_argument("--seed", type=int, default=0)
    ap.add_argument("--shard", type=int, default=0)
    ap.add_argument("--nshards", type=int, default=1)
    ap.add_argument("--budget", type=float, default=60)
    ap.add_argument("--out")
    ap.add_argument("--plan", action="store_true")
    ap.add_argument("--replay")
    a = ap.parse_args()
    mod = runner.load_module(a.prop)
    if a.plan:
        print(json.dumps(mod.plan(a.tier)))
        return 0
    ctx = runner.Ctx(a.prop.upper(), a.tier, a.seed, a.shard, a.nshards, a.budget)
    if a.replay:
        rec = json.load(open(a.replay))
        ctx.budget_s = 1e9
        mod.replay(rec["case"], ctx)
    else:
        import random

        from pgverif import pgx

        pgx.NEUTRAL_RNG = random.Random((a.seed * 7919 + a.shard * 104729 + 5) & 0xFFFFFFFF)
        mod.run(ctx)
        if pgx.NEUTRAL_COUNT[0]:
            ctx.count("parsers_built_with_explicit_default_options", pgx.NEUTRAL_COUNT[0])
    with open(a.out, "w") as f:
        json.dump(ctx.dump(), f, default=str)
    return 0


if __name__ == "__main__":
    try:
        sys.exit(main())
    except SystemExit:
        raise
    except BaseException:  # noqa: BLE001
        traceback.print_exc()
        sys.exit(3)
