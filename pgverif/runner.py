"""Sharded execution, verdict discipline, known findings, evidence, replay."""

import collections
import hashlib
import importlib
import json
import os
import random
import subprocess
import sys
import time

ROOT = os.path.dirname(os.path.dirname(os.path.abspath(__file__)))
PY = "/venv/bin/python"
# The registered commands always test /repo.  PGV_REPO / PGV_OUT_DIR exist only so
# that a seeded change can be tried in a scratch worktree without touching /repo or
# the committed evidence.
REPO = os.environ.get("PGV_REPO", "/repo")
OUT = os.environ.get("PGV_OUT_DIR", ROOT)
MAX_SAMPLES = 6


def h16(obj):
    return hashlib.sha256(json.dumps(obj, sort_keys=True, default=str).encode()).hexdigest()[:16]


class Ctx:
    """What a property module talks to while it runs a shard."""

    def __init__(self, prop, tier, seed, shard, nshards, budget_s):
        self.prop = prop
        self.tier = tier
        self.seed = seed
        self.shard = shard
        self.nshards = nshards
        self.rng = random.Random((seed * 1000003 + shard * 7919 + 17) & 0xFFFFFFFF)
        self.counters = collections.Counter()
        self.sets = collections.defaultdict(set)
        self.evaluations = 0
        self.nontrivial = set()
        self.samples = []
        self.violations = []
        self.known_hits = collections.Counter()
        self.known_samples = {}
        self.inconclusive = []
        self.t0 = time.time()
        self.budget_s = budget_s
        self.truncated = False

    # --- budget -------------------------------------------------------
    def time_left(self):
        return self.budget_s - (time.time() - self.t0)

    def more(self):
        if self.time_left() <= 0:
            self.truncated = True
            return False
        return True

    def mine(self, i):
        return i % self.nshards == self.shard

    # --- recording ----------------------------------------------------
    def count(self, name, n=1):
        self.counters[name] += n

    def seen(self, name, value):
        """Record a distinct observed value (state, cell, class...)."""
        s = self.sets[name]
        if len(s) < 20000:
            s.add(value if isinstance(value, str) else json.dumps(value, sort_keys=True, default=str))

    def case(self, key, nontrivial, sample=None):
        self.evaluations += 1
        if nontrivial:
            self.nontrivial.add(h16(key))
            if sample is not None and len(self.samples) < MAX_SAMPLES:
                self.samples.append(sample)

    def violation(self, sig, case, detail, known=None):
        """sig: short classifier signature used for de-duplication.
        known: id of the listed finding whose mechanism classifier accepted
        this case (None = unattributed)."""
        if known is not None:
            self.known_hits[known] += 1
            if known not in self.known_samples:
                self.known_samples[known] = {"case": case, "detail": detail}
            return
        if len(self.violations) < 200:
            try:
                from pgverif import pgx

                if pgx.NEUTRAL_LOG:
                    detail = "%s [parsers built last spelled out these options with their default values: %s]" % (detail, pgx.NEUTRAL_LOG)
            except Exception:  # noqa: BLE001
                pass
            self.violations.append({"sig": sig, "case": case, "detail": detail})
        self.counters["violations_total"] += 1

    def inconc(self, reason):
        self.counters["inconclusive_cases"] += 1
        if len(self.inconclusive) < 20:
            self.inconclusive.append(reason)

    def dump(self):
        return {
            "shard": self.shard,
            "evaluations": self.evaluations,
            "nontrivial": sorted(self.nontrivial),
            "samples": self.samples,
            "violations": self.violations,
            "known_hits": dict(self.known_hits),
            "known_samples": self.known_samples,
            "inconclusive": self.inconclusive,
            "counters": dict(self.counters),
            "sets": {k: sorted(v) for k, v in self.sets.items()},
            "truncated": self.truncated,
            "wall_s": time.time() - self.t0,
        }


def load_module(prop):
    return importlib.import_module("pgverif.props." + prop.lower())


def load_findings():
    with open(os.path.join(ROOT, "known_findings.json")) as f:
        return json.load(f)["findings"]


def ensure_deps():
    """icontract/deal live in the git-ignored .deps; install from the offline
    wheelhouse when absent (fresh restore)."""
    deps = os.path.join(ROOT, ".deps")
    if os.path.isdir(os.path.join(deps, "icontract")):
        return True
    try:
        subprocess.run(
            [PY, "-m", "pip", "install", "-q", "--no-index", "--find-links", "/opt/veriftools/wheels", "--target", deps, "icontract", "deal"],
            check=True,
            stdout=subprocess.DEVNULL,
            stderr=subprocess.DEVNULL,
            timeout=300,
        )
        return True
    except Exception:  # noqa: BLE001
        return False


def worker_env():
    env = dict(os.environ)
    env["PYTHONPATH"] = REPO + ":" + ROOT + ":" + os.path.join(ROOT, ".deps")
    env["PGV_REPO"] = REPO
    env["PYTHONDONTWRITEBYTECODE"] = "1"
    env.setdefault("PYTHONHASHSEED", "0")
    env["PARGLARE_VERIF"] = "1"
    return env


def run_check(prop, tier, seed, replay=None):
    t0 = time.time()
    prop = prop.upper()
    ensure_deps()
    sys.path.insert(0, ROOT)
    sys.path.insert(0, REPO)
    os.environ.setdefault("PYTHONDONTWRITEBYTECODE", "1")
    work = os.path.join(ROOT, ".work", "%s.%s.%d.%d" % (prop, tier, seed, os.getpid()))
    os.makedirs(work, exist_ok=True)
    env = worker_env()

    if replay:
        p = subprocess.run([PY, "-m", "pgverif.worker", prop, "--replay", replay, "--out", os.path.join(work, "replay.json")], env=env, cwd=ROOT, timeout=1800)
        res = json.load(open(os.path.join(work, "replay.json")))
        _cleanup(work)
        findings = {f["id"]: f for f in load_findings()}
        viol = res["violations"]
        for fid, n in res["known_hits"].items():
            if findings.get(fid, {}).get("status") == "known":
                print("KNOWN-FINDING: property=%s %s: %s" % (prop, fid, findings[fid]["what"]))
            else:
                viol.append({"sig": fid, "case": res["known_samples"][fid]["case"], "detail": res["known_samples"][fid]["detail"]})
        if viol:
            for v in viol:
                print("reproduced:", v["sig"], "-", str(v["detail"])[:300])
            print("VIOLATION property=%s replay=%s" % (prop, replay))
            return 1
        print("replay: no violation reproduced")
        return 0

    # plan: number of shards / budgets come from the module, read in a child
    plan = json.loads(
        subprocess.run([PY, "-m", "pgverif.worker", prop, "--plan", "--tier", tier], env=env, cwd=ROOT, capture_output=True, text=True, timeout=120, check=True).stdout
    )
    nshards = plan["nshards"]
    budget = plan["budget_s"]
    procs = []
    for s in range(nshards):
        out = os.path.join(work, "shard%d.json" % s)
        log = open(os.path.join(work, "shard%d.log" % s), "w")
        cmd = [PY, "-m", "pgverif.worker", prop, "--tier", tier, "--seed", str(seed), "--shard", str(s), "--nshards", str(nshards), "--budget", str(budget), "--out", out]
        procs.append((s, out, log, subprocess.Popen(cmd, env=env, cwd=ROOT, stdout=log, stderr=subprocess.STDOUT)))
    hard = budget * 3 + 120
    shards = []
    dead = []
    for s, out, log, p in procs:
        try:
            p.wait(timeout=max(1, hard - (time.time() - t0)))
        except subprocess.TimeoutExpired:
            p.kill()
            p.wait()
            dead.append((s, "watchdog"))
        log.close()
        if os.path.exists(out):
            try:
                shards.append(json.load(open(out)))
                continue
            except Exception:  # noqa: BLE001
                pass
        if (s, "watchdog") not in dead:
            tail = open(os.path.join(work, "shard%d.log" % s)).read()[-1500:]
            dead.append((s, "crashed rc=%s: %s" % (p.returncode, tail)))

    rc = aggregate(prop, tier, seed, plan, shards, dead, time.time() - t0)
    _cleanup(work)
    return rc


def _cleanup(work):
    import shutil

    shutil.rmtree(work, ignore_errors=True)
    with_parent = os.path.dirname(work)
    try:
        if not os.listdir(with_parent):
            os.rmdir(with_parent)
    except OSError:
        pass


def aggregate(prop, tier, seed, plan, shards, dead, wall):
    mod = load_module(prop)
    findings = {f["id"]: f for f in load_findings() if f["property"] == prop or prop in f.get("also", [])}
    counters = collections.Counter()
    sets = collections.defaultdict(set)
    nontrivial = set()
    evaluations = 0
    samples = []
    violations = []
    known_hits = collections.Counter()
    known_samples = {}
    inconclusive = []
    truncated = 0
    for sh in shards:
        evaluations += sh["evaluations"]
        nontrivial |= set(sh["nontrivial"])
        for smp in sh["samples"]:
            if len(samples) < MAX_SAMPLES:
                samples.append(smp)
        violations += sh["violations"]
        for k, v in sh["known_hits"].items():
            known_hits[k] += v
        for k, v in sh["known_samples"].items():
            known_samples.setdefault(k, v)
        inconclusive += sh["inconclusive"]
        counters.update(sh["counters"])
        for k, v in sh["sets"].items():
            sets[k] |= set(v)
        truncated += 1 if sh["truncated"] else 0

    # known / fixed findings
    lines = []
    for fid, n in sorted(known_hits.items()):
        f = findings.get(fid)
        if f is not None and f["status"] == "known":
            lines.append("KNOWN-FINDING: property=%s %s: %s (%d cases this run)" % (prop, fid, f["what"], n))
        else:
            # classifier named a finding that is not listed as known (e.g. it is
            # recorded as fixed, or not recorded at all): it suppresses nothing.
            s = known_samples[fid]
            violations.append({"sig": "%s-returned" % fid, "case": s["case"], "detail": s["detail"]})

    # de-duplicate violations by signature
    by_sig = collections.OrderedDict()
    for v in violations:
        by_sig.setdefault(v["sig"], []).append(v)

    reasons = []
    for s, why in dead:
        if len(reasons) < 3:
            reasons.append("shard %d %s" % (s, why[-700:].replace("\n", " | ")))
    if not shards:
        reasons.append("no shard produced a result")
    need = mod.required(tier) if hasattr(mod, "required") else {}
    for name, minimum in need.items():
        have = len(sets[name]) if name in sets else counters.get(name, 0)
        if name == "nontrivial":
            have = len(nontrivial)
        # the thresholds in required() are sized for a quiet 16-core machine; a run that reached
        # a monitor well but got fewer cycles (loaded machine) is not "monitor never reached":
        # inconclusive below 40% of the nominal threshold (at least 1 observation always)
        floor = max(1, int(minimum * 0.4))
        if have < floor:
            reasons.append("monitor/counter %s observed %d < required %d (40%% of the nominal %d)" % (name, have, floor, minimum))
    if counters.get("inconclusive_cases", 0) > max(3, 0.01 * evaluations):
        reasons.append("%d cases inconclusive, e.g. %s" % (counters["inconclusive_cases"], inconclusive[0]))

    ev = {
        "property_id": prop,
        "tier": tier,
        "seed": seed,
        "level": getattr(mod, "LEVEL", "exploration"),
        "coverage": {
            "evaluations": evaluations,
            "distinct_nontrivial": len(nontrivial),
            "rule": mod.RULE,
            "samples": samples,
            "monitor_counters": dict(sorted(counters.items())),
            "distinct_observed": {k: len(v) for k, v in sorted(sets.items())},
            "distinct_observed_examples": {k: sorted(v)[:8] for k, v in sorted(sets.items())},
            "known_finding_hits": dict(known_hits),
            "known_finding_samples": {k: v for k, v in list(known_samples.items())[:6]},
            "shards": len(shards),
            "shards_truncated_by_time_budget": truncated,
            "inconclusive_cases": counters.get("inconclusive_cases", 0),
            "inconclusive_examples": inconclusive[:5],
            "verdict": "violated" if by_sig else ("inconclusive" if reasons else "held"),
        },
        "assumptions": getattr(mod, "ASSUMPTIONS", []),
        "wall_s": round(wall, 2),
        "violations": len(by_sig),
    }
    os.makedirs(os.path.join(OUT, "evidence"), exist_ok=True)
    with open(os.path.join(OUT, "evidence", "%s.json" % prop), "w") as f:
        json.dump(ev, f, indent=1, sort_keys=True, default=str)
        f.write("\n")

    for l in lines:
        print(l)
    print(
        "%s tier=%s seed=%d: %d evaluations, %d distinct non-trivial, %d shards, %.1fs"
        % (prop, tier, seed, evaluations, len(nontrivial), len(shards), wall)
    )
    if by_sig:
        rdir = os.path.join(OUT, "replay", prop)
        os.makedirs(rdir, exist_ok=True)
        for i, (sig, vs) in enumerate(by_sig.items()):
            if i >= 20:
                break
            v = vs[0]
            path = os.path.join(rdir, "%s.json" % h16([sig, v["case"]]))
            with open(path, "w") as f:
                json.dump({"property": prop, "sig": sig, "case": v["case"], "detail": v["detail"], "seed": seed, "tier": tier, "count": len(vs)}, f, indent=1, default=str)
            print("  violation [%s] x%d: %s" % (sig, len(vs), str(v["detail"])[:400]))
            print("VIOLATION property=%s replay=%s" % (prop, path))
        return 1
    if reasons:
        for r in reasons:
            print("INCONCLUSIVE property=%s reason=%s" % (prop, r))
        return 2
    return 0
