"""M-contracts: icontract pre/postconditions put on the *real* parglare functions
from the harness (nothing is edited in /repo).

Named condition functions and explicit error classes are used throughout; every
condition counts its evaluations so that a run in which a contract was never
evaluated can be told apart from one in which it held.  A broken contract raises
ContractBroken from inside the library call, which the property checks report
as a violation (it is never swallowed: pgx.outcome re-raises it).
"""

import parglare.glr as G
import parglare.parser as P
import parglare.trees as T

from pgverif.pgx import BudgetExceeded

try:
    import icontract

    HAVE = True
except Exception:  # noqa: BLE001
    icontract = None
    HAVE = False


class ContractBroken(BudgetExceeded):
    """Raised by a broken contract; subclass of BudgetExceeded so that the
    harness never mistakes it for an ordinary library exception."""


COUNTS = {"skipws": 0, "get_tree": 0, "reduce": 0}


# --- Parser._skipws: the position only moves forward over exactly the layout it reports
def _skipws_old_position(head):
    return head.position


def _skipws_forward_and_consistent(head, input_str, OLD):
    COUNTS["skipws"] += 1
    if head.position < OLD.pos:
        return False
    return input_str[OLD.pos : head.position] == head.layout_content_ahead


# --- Forest.get_tree / get_nonlazy_tree: the tree's root is one of the root alternatives
def _tree_root_is_an_alternative(self, result):
    COUNTS["get_tree"] += 1
    return any(result.root is p for p in self.result.possibilities)


# --- GLRParser._reduce: the reduced symbol has a goto in the root's state
def _goto_exists(root_head, production):
    COUNTS["reduce"] += 1
    return production.symbol in root_head.state.gotos


class Contracts:
    def __init__(self, which=("skipws", "get_tree", "reduce")):
        self.which = which
        self.orig = {}
        self.installed = False

    def install(self):
        if not HAVE or self.installed:
            return False
        if "skipws" in self.which:
            self.orig["skipws"] = P.Parser._skipws
            f = icontract.ensure(_skipws_forward_and_consistent, error=lambda head, input_str: ContractBroken("Parser._skipws: position moved backwards or layout_content_ahead != skipped text at %s" % head.position))(P.Parser._skipws)
            P.Parser._skipws = icontract.snapshot(_skipws_old_position, name="pos")(f)
        if "get_tree" in self.which:
            self.orig["get_tree"] = T.Forest.get_tree
            self.orig["get_nonlazy_tree"] = T.Forest.get_nonlazy_tree
            T.Forest.get_tree = icontract.ensure(_tree_root_is_an_alternative, error=lambda self: ContractBroken("Forest.get_tree: root of the tree is not an alternative of the forest root"))(T.Forest.get_tree)
            T.Forest.get_nonlazy_tree = icontract.ensure(_tree_root_is_an_alternative, error=lambda self: ContractBroken("Forest.get_nonlazy_tree: root of the tree is not an alternative of the forest root"))(T.Forest.get_nonlazy_tree)
        if "reduce" in self.which:
            self.orig["reduce"] = G.GLRParser._reduce
            G.GLRParser._reduce = icontract.require(_goto_exists, error=lambda production: ContractBroken("GLRParser._reduce: no goto on %s in the root state" % production.symbol.name))(G.GLRParser._reduce)
        self.installed = True
        return True

    def uninstall(self):
        if not self.installed:
            return
        if "skipws" in self.orig:
            P.Parser._skipws = self.orig["skipws"]
        if "get_tree" in self.orig:
            T.Forest.get_tree = self.orig["get_tree"]
            T.Forest.get_nonlazy_tree = self.orig["get_nonlazy_tree"]
        if "reduce" in self.orig:
            G.GLRParser._reduce = self.orig["reduce"]
        self.installed = False

    def report(self, ctx):
        for k, v in COUNTS.items():
            if v:
                ctx.count("contract_evaluations." + k, v)
