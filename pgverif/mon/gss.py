"""M-gss: monitor of the real GLR driver (graph structured stack + SPPF).

Installed from the harness by wrapping methods of parglare.glr.GLRParser; it
never changes what the parser does.  Per parse it records

  * counters proving which anchored mechanisms ran (reductions, limited
    re-reductions, merges into existing links, new links on existing heads,
    shifts into already shifted heads, lexical forks, epsilon self links);
  * the reduce-event log (production, identity of the child links, whether it
    ran inside a limited re-reduction);
  * the closure invariant, evaluated at the quiescent point before every shift:
    every reduction that the table offers for a head of the frontier, along
    every path of the GSS, has been performed and is packed in the link to the
    path's root;
  * a logical reduce budget (bounded progress) instead of a wall clock.
"""

import parglare.glr as G
from parglare.tables import REDUCE

from pgverif.pgx import BudgetExceeded


class GssMonitor:
    def __init__(self, reduce_budget=400000, check_closure=True):
        self.reduce_budget = reduce_budget
        self.do_closure = check_closure
        self.installed = False
        self.totals = {}
        self.reset()

    def reset(self):
        self.heads = []
        self.reduce_events = {}
        self.closure_missing = []
        self.c = dict(
            actor=0,
            reduce=0,
            limited=0,
            revisit_reduce=0,
            merge=0,
            newlink_existing_head=0,
            new_head=0,
            shift_new=0,
            shift_merge=0,
            fork=0,
            eps_reduce=0,
            closure_checks=0,
            closure_paths=0,
            frontiers=0,
            multi_revisit=0,
            revisit_before_actor=0,
            revisit_without_path_to_the_new_link=0,
        )
        self._actor_ids = set()
        self._limited = None
        self._revisit_ctx = None
        self._keep = []

    def fold(self):
        for k, v in self.c.items():
            self.totals[k] = self.totals.get(k, 0) + v
        self.totals["closure_missing_cyclic"] = self.totals.get("closure_missing_cyclic", 0) + sum(1 for m in self.closure_missing if m["cyclic"])
        self.totals["closure_missing_noncyclic"] = self.totals.get("closure_missing_noncyclic", 0) + sum(1 for m in self.closure_missing if not m["cyclic"])

    def install(self):
        if self.installed:
            return
        mon = self
        P = G.GLRParser
        o = dict(
            actor=P._actor,
            red=P._do_reductions,
            reduce=P._reduce,
            shifts=P._do_shifts,
            parse=P.parse,
            finish_err=P._finish_error_reporting,
            create_link=G.GSSNode.create_link,
            for_token=G.GSSNode.for_token,
        )
        self._orig = o

        def actor(self, head):
            mon.c["actor"] += 1
            mon.heads.append(head)
            mon._actor_ids.add(id(head))
            return o["actor"](self, head)

        def do_reductions(self, head, production, update_parent=None):
            prev = mon._limited
            mon._limited = update_parent
            if update_parent is not None:
                mon.c["limited"] += 1
                # by design only heads the actor has already processed are revisited; a head
                # still waiting for the actor will do all its reductions anyway
                if id(head) not in mon._actor_ids:
                    mon.c["revisit_before_actor"] += 1
                # ... and only heads whose reduction paths pass through the node that got the
                # new link (reachable over links inside the current frontier)
                target = update_parent.head
                if target is not head:
                    seen = {id(head)}
                    st = [head]
                    found = False
                    budget = 3000
                    while st and not found and budget > 0:
                        n = st.pop()
                        for par in n.parents.values():
                            budget -= 1
                            r = par.root
                            if r is target:
                                found = True
                                break
                            if r.frontier == head.frontier and id(r) not in seen:
                                seen.add(id(r))
                                st.append(r)
                    if not found and budget > 0:
                        mon.c["revisit_without_path_to_the_new_link"] += 1
                # heads revisited because of one new link: more than one means their order matters
                rc = mon._revisit_ctx
                if rc is not None and id(head) not in rc:
                    rc.add(id(head))
                    if len(rc) == 2:
                        mon.c["multi_revisit"] += 1
            try:
                return o["red"](self, head, production, update_parent)
            finally:
                mon._limited = prev

        def _reduce(self, head, root_head, production, node_nonterm, start_position, end_position):
            c = mon.c
            c["reduce"] += 1
            if c["reduce"] > mon.reduce_budget:
                raise BudgetExceeded("more than %d GLR reductions in one parse" % mon.reduce_budget)
            lim = mon._limited is not None
            if lim:
                c["revisit_reduce"] += 1
            if not len(production.rhs):
                c["eps_reduce"] += 1
            mon._keep.append(node_nonterm)
            mon.reduce_events[id(node_nonterm)] = (
                production.prod_id,
                tuple(id(x) for x in node_nonterm.children),
                lim,
                head.id,
            )
            prev_rc = mon._revisit_ctx
            mon._revisit_ctx = set()
            try:
                return o["reduce"](self, head, root_head, production, node_nonterm, start_position, end_position)
            finally:
                mon._revisit_ctx = prev_rc

        def create_link(self, parent):
            existing = self.parents.get(parent.root.id)
            if existing:
                mon.c["merge"] += 1
            elif self.parents:
                mon.c["newlink_existing_head"] += 1
            else:
                mon.c["new_head"] += 1
            return o["create_link"](self, parent)

        def for_token(self, token):
            r = o["for_token"](self, token)
            if r is not self:
                mon.c["fork"] += 1
            return r

        def do_shifts(self):
            if mon.do_closure and not self._in_error_reporting and not self.dynamic_filter:
                mon.check_closure(self)
            mon.heads = []
            mon._actor_ids = set()
            mon.c["frontiers"] += 1
            before = set(id(h) for h in ())
            n_for = len(self._for_shifter)
            r = o["shifts"](self)
            new = len(self._active_heads)
            mon.c["shift_new"] += new
            mon.c["shift_merge"] += max(0, (n_for - len(self._for_shifter)) - new)
            return r

        def finish_error_reporting(self, input_str):
            # error reporting simulates the reductions for every possible lookahead;
            # the same closure invariant applies to that simulation
            if mon.do_closure and not self.dynamic_filter:
                mon.check_closure(self)
            mon.heads = []
            return o["finish_err"](self, input_str)

        def parse(self, *a, **k):
            mon.reset()
            try:
                return o["parse"](self, *a, **k)
            finally:
                mon.fold()

        P._actor = actor
        P._do_reductions = do_reductions
        P._reduce = _reduce
        P._do_shifts = do_shifts
        P.parse = parse
        P._finish_error_reporting = finish_error_reporting
        G.GSSNode.create_link = create_link
        G.GSSNode.for_token = for_token
        self.installed = True

    def uninstall(self):
        if not self.installed:
            return
        P = G.GLRParser
        o = self._orig
        P._actor = o["actor"]
        P._do_reductions = o["red"]
        P._reduce = o["reduce"]
        P._do_shifts = o["shifts"]
        P.parse = o["parse"]
        P._finish_error_reporting = o["finish_err"]
        G.GSSNode.create_link = o["create_link"]
        G.GSSNode.for_token = o["for_token"]
        self.installed = False

    # ------------------------------------------------------------------
    def check_closure(self, parser):
        self.c["closure_checks"] += 1
        seen = {}
        for h in self.heads:
            if h.token_ahead is None:
                continue
            seen[(h.id, h.token_ahead.symbol.name, id(h))] = h
        by_la = {}
        for (hid, la, _), h in seen.items():
            by_la.setdefault(la, {})[h.state.state_id] = h
        budget = 20000
        for la, heads in by_la.items():
            for h in list(heads.values()):
                for action in h.state.actions.get(h.token_ahead.symbol, []):
                    if action.action != REDUCE:
                        continue
                    prod = action.prod
                    n = len(prod.rhs)
                    if n == 0:
                        paths = [((), h, [h])]
                    else:
                        paths = []
                        stack = [(h, (), [h])]
                        while stack:
                            node, links, nodes = stack.pop()
                            if len(links) == n:
                                paths.append((links, node, nodes))
                                continue
                            for par in node.parents.values():
                                stack.append((par.root, (par,) + links, nodes + [par.root]))
                            budget -= 1
                            if budget < 0:
                                self.c["closure_budget_exhausted"] = self.c.get("closure_budget_exhausted", 0) + 1
                                return
                    for links, root, nodes in paths:
                        self.c["closure_paths"] += 1
                        tgt_state = root.state.gotos.get(prod.symbol)
                        ok = False
                        if tgt_state is not None:
                            th = heads.get(tgt_state.state_id)
                            if th is not None:
                                par = th.parents.get(root.id)
                                if par is not None:
                                    for poss in par.possibilities:
                                        if (
                                            poss.is_nonterm()
                                            and poss.production is prod
                                            and len(poss.children) == len(links)
                                            and all(a is b for a, b in zip(poss.children, links))
                                        ):
                                            ok = True
                                            break
                        if not ok:
                            ids = [id(x) for x in nodes]
                            self.closure_missing.append(
                                {
                                    "head": h.id,
                                    "lookahead": la,
                                    "prod": prod.prod_id,
                                    "path": [x.id for x in nodes],
                                    "cyclic": len(set(ids)) < len(ids),
                                }
                            )

    # ------------------------------------------------------------------
    def duplicates(self, forest_root):
        """Walk the SPPF; identical alternatives (same production, identical
        child links / same token) inside one link are duplicates.  Each is
        attributed when every copy maps to a logged reduce event and at least
        one of them ran inside a limited re-reduction or is an epsilon
        reduction.  Returns list of dicts."""
        ev = self.reduce_events
        dups = []
        seen = set()
        st = [forest_root]
        links = 0
        while st:
            par = st.pop()
            if id(par) in seen:
                continue
            seen.add(id(par))
            links += 1
            keys = {}
            for poss in par.possibilities:
                if poss.is_nonterm():
                    k = (poss.production.prod_id, tuple(id(c) for c in poss.children))
                    keys.setdefault(k, []).append(poss)
                    for c in poss.children:
                        st.append(c)
                else:
                    k = ("T", poss.symbol.name, poss.start_position, poss.end_position)
                    keys.setdefault(k, []).append(poss)
            for k, ps in keys.items():
                if len(ps) > 1:
                    if k[0] == "T":
                        dups.append({"prod": "T:" + k[1], "copies": len(ps), "attributed": False, "limited": []})
                        continue
                    evs = [ev.get(id(p)) for p in ps]
                    attributed = all(e is not None for e in evs) and (sum(1 for e in evs if e[2]) >= 1 or k[1] == ())
                    dups.append({"prod": k[0], "copies": len(ps), "attributed": attributed, "limited": [(e[2] if e else None) for e in evs]})
        self.last_links = links
        return dups
