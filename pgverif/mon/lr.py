"""M-lr / M-steps: monitor of the real LR driver and of the scanner.

* token-choice events: every call of Parser._next_tokens (LR and GLR) with the
  state, position, and a *copy* of the returned tokens (GLR pops the list);
* logical steps: shifts, reductions, recoveries per parse; divergence is decided
  logically: between two shifts the deterministic LR driver must never see the
  same configuration (stack state ids, position, production) twice;
* cell coverage: (state, lookahead symbol) pairs exercised.
"""

import parglare.parser as P

from pgverif.pgx import BudgetExceeded


class Diverged(BudgetExceeded):
    pass


class LRMonitor:
    def __init__(self, record_events=False, step_budget=200000):
        self.record_events = record_events
        self.step_budget = step_budget
        self.events = []
        self.cells = set()
        self.c = dict(shifts=0, reduces=0, recoveries=0, next_tokens=0, parses=0, diverged=0)
        self.installed = False
        self.check_stall = False

    def install(self):
        if self.installed:
            return
        mon = self
        C = P.Parser
        o = dict(nt=C._next_tokens, sh=C._call_shift_action, rd=C._call_reduce_action, rec=C._do_recovery, parse=C.parse)
        self._orig = o

        def _next_tokens(self, head):
            toks = o["nt"](self, head)
            mon.c["next_tokens"] += 1
            if mon.record_events:
                mon.events.append((self, head.state, head.position, list(toks)))
            for t in toks:
                mon.cells.add((id(self.table), head.state.state_id, t.symbol.name))
            return toks

        def _call_shift_action(self, context):
            mon.c["shifts"] += 1
            self._pgv_seen = set()
            self._pgv_since = 0
            self._pgv_steps = getattr(self, "_pgv_steps", 0) + 1
            return o["sh"](self, context)

        def _call_reduce_action(self, context, subresults):
            mon.c["reduces"] += 1
            self._pgv_steps = getattr(self, "_pgv_steps", 0) + 1
            if self._pgv_steps > mon.step_budget:
                raise BudgetExceeded("more than %d LR steps in one parse" % mon.step_budget)
            if not self.dynamic_filter:
                since = self._pgv_since = getattr(self, "_pgv_since", 0) + 1
                depth = len(self.parse_stack)
                if since <= 1500:
                    seen = getattr(self, "_pgv_seen", None)
                    if seen is None:
                        seen = self._pgv_seen = set()
                    cfgk = (tuple(n.state.state_id for n in self.parse_stack), context.position, context.production.prod_id)
                    if cfgk in seen:
                        mon.c["diverged"] += 1
                        raise Diverged(
                            "LR configuration repeated without a shift: stack states %s position %d production %d"
                            % (list(cfgk[0])[-6:], cfgk[1], cfgk[2])
                        )
                    seen.add(cfgk)
                # bounded progress: reductions since the last shift / recovery
                bound = 100 * (len(self.table.states) + len(self.grammar.productions) + 10)
                if since > bound and depth > len(self.table.states) + 10:
                    mon.c["diverged"] += 1
                    raise Diverged(
                        "%d reductions without a shift, stack grew to %d nodes (table has %d states): top states %s"
                        % (since, depth, len(self.table.states), [n.state.state_id for n in self.parse_stack[-6:]])
                    )
            return o["rd"](self, context, subresults)

        def _do_recovery(self):
            mon.c["recoveries"] += 1
            self._pgv_seen = set()
            self._pgv_since = 0
            # bounded progress: between two recoveries the position strictly
            # advances or a shift happens
            head = self.parse_stack[-1]
            last = getattr(self, "_pgv_last_rec", None)
            now = (mon.c["shifts"], head.position)
            if mon.check_stall and last is not None and last[0] == now[0] and now[1] <= last[1]:
                mon.c["diverged"] += 1
                raise Diverged("recovery stalled: recovery entered again at position %d (previous at %d) with no shift in between" % (now[1], last[1]))
            self._pgv_last_rec = now
            return o["rec"](self)

        def parse(self, *a, **k):
            mon.c["parses"] += 1
            self._pgv_seen = set()
            self._pgv_steps = 0
            self._pgv_since = 0
            self._pgv_last_rec = None
            return o["parse"](self, *a, **k)

        C._next_tokens = _next_tokens
        C._call_shift_action = _call_shift_action
        C._call_reduce_action = _call_reduce_action
        C._do_recovery = _do_recovery
        C.parse = parse
        self.installed = True

    def uninstall(self):
        if not self.installed:
            return
        C = P.Parser
        o = self._orig
        C._next_tokens = o["nt"]
        C._call_shift_action = o["sh"]
        C._call_reduce_action = o["rd"]
        C._do_recovery = o["rec"]
        C.parse = o["parse"]
        self.installed = False
