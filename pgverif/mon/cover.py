"""M-cover: which lines of the anchored functions were actually executed.

sys.monitoring LINE events restricted to the given code objects; the callback
returns DISABLE after the first hit of a line so the cost is negligible.  The
evidence lists lines hit / lines present per anchored function; an anchored
function that was never reached makes the run inconclusive (see required()).
"""

import sys

TOOL = 3  # sys.monitoring tool id (0-5); 3 is free for applications


class Cover:
    def __init__(self, funcs):
        """funcs: {label: function or code object}"""
        self.codes = {}
        for label, f in funcs.items():
            code = getattr(f, "__code__", f)
            self.codes[code] = label
        self.hit = {label: set() for label in funcs}
        self.total = {}
        for code, label in self.codes.items():
            self.total[label] = len(set(l for _, _, l in code.co_lines() if l is not None)) + sum(
                len(set(l for _, _, l in c.co_lines() if l is not None)) for c in self._nested(code)
            )
        self.active = False

    def _nested(self, code):
        out = []
        for c in code.co_consts:
            if hasattr(c, "co_lines"):
                out.append(c)
                out.extend(self._nested(c))
        return out

    def install(self):
        mon = sys.monitoring
        try:
            mon.use_tool_id(TOOL, "pgverif-cover")
        except ValueError:
            return False
        cover = self

        def on_line(code, line):
            label = cover._label.get(code)
            if label is not None:
                cover.hit[label].add(line)
            return mon.DISABLE

        self._label = {}
        for code, label in self.codes.items():
            self._label[code] = label
            for c in self._nested(code):
                self._label[c] = label
        mon.register_callback(TOOL, mon.events.LINE, on_line)
        for code in self._label:
            mon.set_local_events(TOOL, code, mon.events.LINE)
        self.active = True
        return True

    def uninstall(self):
        if not self.active:
            return
        mon = sys.monitoring
        for code in self._label:
            mon.set_local_events(TOOL, code, 0)
        mon.register_callback(TOOL, mon.events.LINE, None)
        mon.free_tool_id(TOOL)
        self.active = False

    def report(self, ctx):
        for label, lines in self.hit.items():
            for l in lines:
                ctx.seen("cover." + label, "%05d" % l)
            ctx.count("cover_total_lines." + label, 0)
