import argparse
import os
import sys

from pgverif import runner


def main():
    ap = argparse.ArgumentParser()
    ap.add_argument("prop")
    ap.add_argument("--tier", default=os.environ.get("VERIF_TIER") or "quick", choices=["quick", "thorough"])
    ap.add_argument("--seed", type=int, default=int(os.environ.get("VERIF_SEED") or 0))
    ap.add_argument("--replay")
    a = ap.parse_args()
    return runner.run_check(a.prop, a.tier, a.seed, a.replay)


if __name__ == "__main__":
    sys.exit(main())
