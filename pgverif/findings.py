"""Mechanism classifiers for the recorded (known) findings.

Each classifier is a conjunctive, deterministic predicate over (static features
of the case, the observed failure signature, what the internal monitor
recorded).  If the internal monitor needed for attribution did not run,
nothing is attributed.  A classifier returns the finding id or None.
"""


def lost_derivations_known(g, mon):
    """KF-C02-1: forest-level loss explained by missing reductions that all
    lie on cyclic GSS paths (limited re-reduction passing a head twice)."""
    if mon is None or not mon.installed:
        return None
    if not g.nullable():
        return None
    if mon.c.get("closure_checks", 0) == 0:
        return None
    if mon.c.get("closure_budget_exhausted"):
        return None
    miss = mon.closure_missing
    if not miss:
        return None
    if all(m["cyclic"] for m in miss):
        return "KF-C02-1"
    return None


def duplicate_packing_known(dups, mon=None):
    """KF-C03-1 (part 1): all identical alternatives are attributed to repeated
    reduce events (one of them limited, or an epsilon production) - and, when
    the GSS monitor is given, every revisit of this parse concerned a head the
    actor had already processed (the recorded mechanism; a head revisited while
    it still waits for the actor reduces twice for another reason) and whose
    reduction paths do pass through the node that got the new link."""
    if not dups:
        return None
    if mon is not None and (mon.c.get("revisit_before_actor", 0) or mon.c.get("revisit_without_path_to_the_new_link", 0)):
        return None
    if all(d["attributed"] for d in dups):
        return "KF-C03-1"
    return None
