"""Runtime-monitoring harness for the parglare properties C01..C20.

Nothing in this package shares code with parglare; parglare is always imported
from /repo's working tree (see check / runner.py).
"""
