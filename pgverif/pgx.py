"""Interop with the real parglare (always the one in /repo's working tree)."""

import contextlib
import io
import signal
import sys

import parglare
from parglare import GLRParser, Grammar, Parser  # noqa: F401
from parglare.tables import ACCEPT, LALR, REDUCE, SHIFT, SLR  # noqa: F401

import os as _os

assert parglare.__file__.startswith(_os.environ.get("PGV_REPO", "/repo") + "/"), parglare.__file__


class CaseTimeout(Exception):
    """Wall clock watchdog fired: the case is inconclusive (never a verdict)."""


class BudgetExceeded(Exception):
    """A logical step budget was exceeded: bounded-progress violation."""


@contextlib.contextmanager
def quiet():
    """parglare prints the automaton to stdout on conflicts; keep stdout clean."""
    old = sys.stdout
    sys.stdout = io.StringIO()
    try:
        yield
    finally:
        sys.stdout = old


def _alarm(signum, frame):
    raise CaseTimeout()


@contextlib.contextmanager
def watchdog(seconds):
    old = signal.signal(signal.SIGALRM, _alarm)
    signal.setitimer(signal.ITIMER_REAL, seconds)
    try:
        yield
    finally:
        signal.setitimer(signal.ITIMER_REAL, 0)
        signal.signal(signal.SIGALRM, old)


def grammar(text, **kw):
    with quiet():
        return Grammar.from_string(text, **kw)


# --- neutral spellings -----------------------------------------------------------
# With NEUTRAL_RNG set (by the worker, never in a replay) a fifth of the parser
# constructions spell out some options with their documented default values.  That
# must not change anything; it exercises the "was the option given?" logic of the
# constructors next to whatever the check itself varies.
NEUTRAL_RNG = None
NEUTRAL_LOG = []
NEUTRAL_COUNT = [0]


def _neutral(kw, is_glr):
    r = NEUTRAL_RNG
    if r is None or r.random() >= 0.2:
        return kw
    cands = [("ws", "\n\r\t "), ("consume_input", True), ("error_recovery", False), ("force_load_table", False), ("debug", False), ("call_actions_during_tree_build", False), ("in_layout", False)]
    cands.append(("lexical_disambiguation", False if is_glr else True))
    if not is_glr:
        cands += [("return_position", False), ("build_tree", False)]
    if "table" not in kw:
        cands += [("tables", LALR), ("prefer_shifts", False if is_glr else True), ("prefer_shifts_over_empty", False if is_glr else True)]
    add = {k: v for k, v in cands if k not in kw and r.random() < 0.4}
    if not add:
        return kw
    NEUTRAL_COUNT[0] += 1
    NEUTRAL_LOG.append(("GLRParser" if is_glr else "Parser", sorted(add)))
    del NEUTRAL_LOG[:-4]
    return dict(kw, **add)


def glr(g, **kw):
    kw = _neutral(kw, True)
    with quiet():
        return GLRParser(g, **kw)


def lr(g, **kw):
    kw = _neutral(kw, False)
    with quiet():
        return Parser(g, **kw)


def prod_keys(pg):
    """prod_id -> (lhs name, tuple of rhs names without EMPTY)."""
    out = {}
    for pr in pg.productions:
        out[pr.prod_id] = (pr.symbol.name, tuple(s.name for s in list.__iter__(pr.rhs) if s.name != "EMPTY"))
    return out


def tree_form(node, pkeys):
    """Canonical form of a parglare tree: structure + leaf (name,start,end)."""
    if node.is_term():
        return ("t", node.symbol.name, node.start_position, node.end_position)
    return (pkeys[node.production.prod_id], tuple(tree_form(c, pkeys) for c in node.children))


def ref_tree_form(t, g):
    """Same canonical form from a reference tree (cfg.Chart.trees)."""
    if t[0] == "t":
        return t
    return (g.prods[t[0]], tuple(ref_tree_form(c, g) for c in t[1]))


def tree_leaves(node, out=None):
    if out is None:
        out = []
    if node.is_term():
        out.append(node)
    else:
        for c in node.children:
            tree_leaves(c, out)
    return out


def check_derivation_tree(node, pg, pkeys, start_name):
    """R-tree: independent check that `node` is a derivation tree of the
    grammar.  Returns list of problems (empty = valid)."""
    errs = []
    valid = {}
    for pr in pg.productions[1:]:
        valid.setdefault(pkeys[pr.prod_id], pr)

    def walk(n):
        if n.is_term():
            return
        pr = n.production
        key = pkeys.get(getattr(pr, "prod_id", None))
        if key is None or key not in valid:
            errs.append(("unknown production", str(pr)))
            return
        kids = tuple(c.symbol.name for c in n.children)
        if kids != key[1]:
            errs.append(("children do not match rhs", key, kids))
        if n.symbol.name != key[0]:
            errs.append(("node symbol is not lhs", key, n.symbol.name))
        for c in n.children:
            walk(c)

    if node.is_term():
        errs.append(("root is a terminal", node.symbol.name))
        return errs
    if node.symbol.name != start_name:
        errs.append(("root is not the start symbol", node.symbol.name))
    walk(node)
    return errs


def outcome(fn, *a, **kw):
    """Run fn, classify the outcome at the client boundary."""
    try:
        with quiet():
            r = fn(*a, **kw)
        return ("ret", r)
    except parglare.SyntaxError as e:
        return ("syntax", e)
    except (CaseTimeout, BudgetExceeded):
        raise
    except RecursionError as e:
        return ("exc", e)
    except Exception as e:  # noqa: BLE001
        return ("exc", e)
