"""Reference models (oracles) and workload generators for context-free grammars.

Shares no code with parglare.  A grammar is a list of productions over symbol
names; a symbol is a nonterminal iff its first character is upper case.  Every
terminal has a definition (TDef) saying how it is recognised on characters, so
that the same reference works for plain single character tokens, overlapping
string/regex vocabularies and layout.

Oracles:
  Chart        -- fixpoint chart over character positions: sentence yes/no,
                  packed alternatives, big integer derivation count (or INF),
                  bounded tree enumeration.  Works for cyclic grammars.
  Earley       -- scannerless Earley recogniser: farthest viable position and
                  terminals expected there.
  lr1 / lalr   -- canonical LR(1) construction and LALR(1)/SLR(1) action sets.
"""

import itertools
import re

INF = float("inf")
WS = "\n\r\t "


def is_nt(s):
    return s[:1].isupper()


def _is_word(ch):
    return ch.isalnum() or ch == "_"


class TDef:
    """How a terminal is recognised."""

    __slots__ = ("kind", "text", "prior", "prefer", "finish", "_re", "_rei")

    def __init__(self, kind, text, prior=10, prefer=False, finish=None):
        assert kind in ("str", "re", "kw")
        self.kind = kind
        self.text = text
        self.prior = prior
        self.prefer = prefer
        self.finish = finish
        self._re = self._rei = None

    def match(self, s, pos, ignore_case=False):
        """End position of the (non-empty) match at pos or None."""
        if self.kind in ("str", "kw"):
            piece = s[pos : pos + len(self.text)]
            if ignore_case:
                ok = piece.lower() == self.text.lower()
            else:
                ok = piece == self.text
            if not ok:
                return None
            e = pos + len(self.text)
            if self.kind == "kw":
                # keyword: no word character immediately before or after
                if pos > 0 and _is_word(s[pos - 1]):
                    return None
                if e < len(s) and _is_word(s[e]):
                    return None
            return e
        if ignore_case:
            if self._rei is None:
                self._rei = re.compile(self.text, re.IGNORECASE)
            m = self._rei.match(s, pos)
        else:
            if self._re is None:
                self._re = re.compile(self.text)
            m = self._re.match(s, pos)
        if m and m.end() > pos:
            return m.end()
        return None

    def decl(self, name):
        body = '"%s"' % self.text.replace("\\", "\\\\").replace('"', '\\"') if self.kind in ("str", "kw") else "/%s/" % self.text
        meta = []
        if self.prior != 10:
            meta.append(str(self.prior))
        if self.prefer:
            meta.append("prefer")
        if self.finish is True:
            meta.append("finish")
        elif self.finish is False:
            meta.append("nofinish")
        return "%s: %s%s;" % (name, body, (" {%s}" % ", ".join(meta)) if meta else "")

    def to_json(self):
        return [self.kind, self.text, self.prior, self.prefer, self.finish]

    @staticmethod
    def from_json(j):
        return TDef(j[0], j[1], j[2], j[3], j[4])


class G:
    """Context-free grammar: prods = [(lhs, (sym, ...))], start symbol, terminal defs."""

    def __init__(self, prods, start="S", tdefs=None):
        self.prods = [(l, tuple(r)) for l, r in prods]
        self.start = start
        nts = []
        for l, _ in self.prods:
            if l not in nts:
                nts.append(l)
        self.nts = nts
        self.by = {n: [(i, r) for i, (l, r) in enumerate(self.prods) if l == n] for n in nts}
        terms = []
        for _, r in self.prods:
            for s in r:
                if not is_nt(s) and s not in terms:
                    terms.append(s)
        self.terms = terms
        self.tdefs = dict(tdefs or {})
        for t in terms:
            if t not in self.tdefs:
                self.tdefs[t] = TDef("str", t)
        self._cache = {}

    # --- serialisation -------------------------------------------------
    def to_json(self):
        return {
            "prods": [[l, list(r)] for l, r in self.prods],
            "start": self.start,
            "tdefs": {k: v.to_json() for k, v in self.tdefs.items()},
        }

    @staticmethod
    def from_json(j):
        return G([(l, tuple(r)) for l, r in j["prods"]], j["start"], {k: TDef.from_json(v) for k, v in j["tdefs"].items()})

    def order(self):
        return [self.start] + [n for n in self.nts if n != self.start]

    def text(self, inline=False, extra_rules="", extra_terms="", prod_meta=None, named=False):
        """parglare grammar text.  inline=True writes string terminals whose name
        equals their text inline; everything else is declared.  named=True gives
        every right-hand-side symbol a named match x<i>=."""
        lines = []
        for n in self.order():
            alts = []
            for pi, r in self.by[n]:
                syms = []
                for i, s in enumerate(r):
                    pre = "x%d=" % i if named else ""
                    if not is_nt(s) and inline and self.tdefs[s].kind == "str" and self.tdefs[s].text == s and self._plain(s):
                        syms.append(pre + '"%s"' % s)
                    else:
                        syms.append(pre + s)
                a = " ".join(syms) if syms else "EMPTY"
                if prod_meta and pi in prod_meta:
                    a += " {%s}" % prod_meta[pi]
                alts.append(a)
            lines.append("%s: %s;" % (n, " | ".join(alts)))
        if extra_rules:
            lines.append(extra_rules)
        decl = []
        for t in self.terms:
            d = self.tdefs[t]
            if inline and d.kind == "str" and d.text == t and self._plain(t):
                continue
            decl.append(d.decl(t))
        if extra_terms:
            decl.append(extra_terms)
        if decl:
            lines.append("terminals")
            lines.extend(decl)
        return "\n".join(lines)

    def _plain(self, t):
        d = self.tdefs[t]
        return d.prior == 10 and not d.prefer and d.finish is None

    def prod_key(self, pi):
        return self.prods[pi]

    # --- analyses -------------------------------------------------------
    def productive(self):
        prod = set()
        ch = True
        while ch:
            ch = False
            for l, r in self.prods:
                if l not in prod and all((not is_nt(s)) or s in prod for s in r):
                    prod.add(l)
                    ch = True
        return prod

    def reachable(self):
        seen = {self.start}
        st = [self.start]
        while st:
            n = st.pop()
            for _, r in self.by.get(n, []):
                for s in r:
                    if is_nt(s) and s not in seen:
                        seen.add(s)
                        st.append(s)
        return seen

    def ok(self):
        """All nonterminals defined, productive and reachable."""
        for _, r in self.prods:
            for s in r:
                if is_nt(s) and s not in self.by:
                    return False
        if self.start not in self.by:
            return False
        return not (set(self.nts) - self.productive()) and not (set(self.nts) - self.reachable())

    def nullable(self):
        if "nullable" in self._cache:
            return self._cache["nullable"]
        nl = set()
        ch = True
        while ch:
            ch = False
            for l, r in self.prods:
                if l not in nl and all(s in nl for s in r):
                    nl.add(l)
                    ch = True
        self._cache["nullable"] = nl
        return nl

    def cyclic(self):
        """Some nonterminal derives itself (A =>+ A)."""
        nl = self.nullable()
        edges = {n: set() for n in self.nts}
        for l, r in self.prods:
            for i, s in enumerate(r):
                if is_nt(s) and all(x in nl for x in r[:i] + r[i + 1 :]):
                    edges[l].add(s)
        color = {}

        def dfs(n):
            color[n] = 1
            for m in edges[n]:
                if color.get(m) == 1:
                    return True
                if m not in color and dfs(m):
                    return True
            color[n] = 2
            return False

        return any(n not in color and dfs(n) for n in self.nts)

    def left_rec(self, hidden=False):
        """Left recursion; with hidden=True only one that passes a nullable prefix."""
        nl = self.nullable()
        for n in self.nts:
            seen = set()
            st = [(n, False)]
            while st:
                x, h = st.pop()
                for (m, hh) in self._lr_edges(x, nl):
                    hh = h or hh
                    if m == n and (hh or not hidden):
                        return True
                    if (m, hh) not in seen:
                        seen.add((m, hh))
                        st.append((m, hh))
        return False

    def _lr_edges(self, n, nl):
        out = []
        for _, r in self.by[n]:
            for i, s in enumerate(r):
                if is_nt(s):
                    out.append((s, i > 0))
                if not (is_nt(s) and s in nl):
                    break
        return out

    def right_nulled(self):
        """Some production has a non-empty nullable proper suffix."""
        nl = self.nullable()
        for _, r in self.prods:
            for i in range(1, len(r)):
                if all(s in nl for s in r[i:]):
                    return True
        return False

    def tags(self):
        t = []
        if self.nullable():
            t.append("nullable")
        if self.cyclic():
            t.append("cyclic")
        if self.left_rec():
            t.append("leftrec")
        if self.left_rec(hidden=True):
            t.append("hidden-leftrec")
        if self.right_nulled():
            t.append("right-nulled")
        if not self.nullable():
            t.append("eps-free")
        return t


# ---------------------------------------------------------------------------
# layout skipping models
# ---------------------------------------------------------------------------


def skip_ws(s, p, ws=WS):
    n = len(s)
    while p < n and s[p] in ws:
        p += 1
    return p


def skip_none(s, p):
    return p


def skip_comments(s, p):
    """ws characters, // line comments and nested /* */ block comments."""
    n = len(s)
    while True:
        q = skip_ws(s, p)
        if s.startswith("//", q):
            e = s.find("\n", q)
            q = n if e < 0 else e
            # the newline itself is whitespace and skipped in the next round
        elif s.startswith("/*", q):
            depth = 0
            i = q
            ok = False
            while i < n:
                if s.startswith("/*", i):
                    depth += 1
                    i += 2
                elif s.startswith("*/", i):
                    depth -= 1
                    i += 2
                    if depth == 0:
                        ok = True
                        break
                else:
                    i += 1
            if not ok:
                return q if q == p else q  # unterminated comment: stop before it
            q = i
        if q == p:
            return p
        p = q


# ---------------------------------------------------------------------------
# Chart: the derivation oracle
# ---------------------------------------------------------------------------


class Chart:
    """All derivations of text[...] from the grammar, at character level.

    Positions are 'canonical' character offsets: the offset after skipping
    layout.  A terminal at canonical position p matches text[p:e] and the next
    canonical position is skip(e).  A nonterminal spans (i, j) of canonical
    positions.  The input is a sentence iff (start, skip(0), len(text)) is
    derivable.  With consume_all=False the chart can also be asked for every
    end position.
    """

    def __init__(self, g, text, skip=skip_ws, ignore_case=False, is_list=False):
        self.g = g
        self.text = text
        self.n = len(text)
        self.skip = skip
        self.ic = ignore_case
        self.p0 = skip(text, 0)
        # token matches: tm[t][p] = (e, nextp)
        self.tm = {}
        for t in g.terms:
            d = g.tdefs[t]
            row = {}
            for p in range(self.n):
                e = d.match(text, p, ignore_case)
                if e is not None:
                    row[p] = (e, skip(text, e))
            self.tm[t] = row
        self._fix()
        self._alts = {}
        self._count = {}

    def _fix(self):
        g = self.g
        D = {}  # (N, i) -> set(j)
        n = self.n
        changed = True
        while changed:
            changed = False
            for l, r in g.prods:
                for i in range(n + 1):
                    ends = {i}
                    for s in r:
                        nxt = set()
                        if is_nt(s):
                            for p in ends:
                                nxt |= D.get((s, p), set())
                        else:
                            row = self.tm[s]
                            for p in ends:
                                if p in row:
                                    nxt.add(row[p][1])
                        ends = nxt
                        if not ends:
                            break
                    if ends:
                        cur = D.setdefault((l, i), set())
                        if not ends <= cur:
                            cur |= ends
                            changed = True
        self.D = D

    def derivable(self, N, i, j):
        return j in self.D.get((N, i), ())

    def is_sentence(self):
        return self.derivable(self.g.start, self.p0, self.n)

    def sentence_prefix_ends(self):
        """Canonical end positions j such that text up to j is a sentence
        (used for consume_input=False)."""
        return sorted(self.D.get((self.g.start, self.p0), ()))

    def alts(self, N, i, j):
        """Packed alternatives of (N,i,j): list of (prod index, children) with
        children = tuple of ('N', X, a, b) | ('T', t, p, e, nextp)."""
        k = (N, i, j)
        if k in self._alts:
            return self._alts[k]
        out = []
        for pi, r in self.g.by[N]:
            for ch in self._split(r, 0, i, j):
                out.append((pi, ch))
        self._alts[k] = out
        return out

    def _split(self, r, k, i, j):
        if k == len(r):
            if i == j:
                yield ()
            return
        s = r[k]
        if is_nt(s):
            for m in sorted(self.D.get((s, i), ())):
                if m > j:
                    continue
                for rest in self._split(r, k + 1, m, j):
                    yield (("N", s, i, m),) + rest
        else:
            row = self.tm[s]
            if i in row:
                e, nx = row[i]
                if nx <= j:
                    for rest in self._split(r, k + 1, nx, j):
                        yield (("T", s, i, e, nx),) + rest

    def count(self, N=None, i=None, j=None):
        """Number of derivation trees (INF if infinitely many)."""
        if N is None:
            N, i, j = self.g.start, self.p0, self.n
        if not self.derivable(N, i, j):
            return 0
        visiting = set()
        memo = self._count

        def rec(k):
            if k in memo:
                return memo[k]
            if k in visiting:
                return INF
            visiting.add(k)
            total = 0
            for _, ch in self.alts(*k):
                prod = 1
                for c in ch:
                    if c[0] == "N":
                        v = rec((c[1], c[2], c[3]))
                        prod = INF if (v == INF or prod == INF) else prod * v
                total = INF if (prod == INF or total == INF) else total + prod
            visiting.discard(k)
            memo[k] = total
            return total

        import sys

        old = sys.getrecursionlimit()
        sys.setrecursionlimit(max(old, 10000))
        try:
            return rec((N, i, j))
        finally:
            sys.setrecursionlimit(old)

    def trees(self, N=None, i=None, j=None, limit=None):
        """Enumerate derivation trees (finite case).  tree = (prod index,
        (children...)), leaf = ('t', name, start, end)."""
        if N is None:
            N, i, j = self.g.start, self.p0, self.n
        out = []
        memo = {}

        def rec(k):
            if k in memo:
                return memo[k]
            res = []
            for pi, ch in self.alts(*k):
                parts = []
                for c in ch:
                    if c[0] == "N":
                        parts.append(rec((c[1], c[2], c[3])))
                    else:
                        parts.append([("t", c[1], c[2], c[3])])
                for combo in itertools.product(*parts):
                    res.append((pi, tuple(combo)))
                    if limit is not None and len(res) > limit:
                        raise OverflowError("too many trees")
            memo[k] = res
            return res

        if not self.derivable(N, i, j):
            return out
        return rec((N, i, j))

    def packed(self):
        """Set of packed alternatives reachable from the root:
        {((N,i,j), prod index, child spans)}."""
        root = (self.g.start, self.p0, self.n)
        if not self.derivable(*root):
            return set()
        seen = set()
        out = set()
        st = [root]
        while st:
            k = st.pop()
            if k in seen:
                continue
            seen.add(k)
            for pi, ch in self.alts(*k):
                spans = tuple((c[1], c[2], c[3]) for c in ch)
                out.add((k, pi, spans))
                for c in ch:
                    if c[0] == "N":
                        st.append((c[1], c[2], c[3]))
        return out


# ---------------------------------------------------------------------------
# Earley: viable prefixes
# ---------------------------------------------------------------------------


class Earley:
    """Scannerless Earley recogniser on canonical positions."""

    def __init__(self, g, text, skip=skip_ws, ignore_case=False):
        self.g = g
        self.text = text
        n = len(text)
        nl = g.nullable()
        p0 = skip(text, 0)
        chart = {p0: set()}
        order = [p0]

        def rhs(pi):
            return (g.start,) if pi == -1 else g.prods[pi][1]

        def close(k):
            S = chart[k]
            st = list(S)
            while st:
                pi, d, o = st.pop()
                r = rhs(pi)
                if d < len(r):
                    s = r[d]
                    if is_nt(s):
                        for qi, _ in g.by[s]:
                            it = (qi, 0, k)
                            if it not in S:
                                S.add(it)
                                st.append(it)
                        if s in nl:
                            it = (pi, d + 1, o)
                            if it not in S:
                                S.add(it)
                                st.append(it)
                elif pi != -1:
                    lhs = g.prods[pi][0]
                    for (pj, dj, oj) in list(chart[o]):
                        rj = rhs(pj)
                        if dj < len(rj) and rj[dj] == lhs:
                            it = (pj, dj + 1, oj)
                            if it not in S:
                                S.add(it)
                                st.append(it)

        chart[p0].add((-1, 0, p0))
        import heapq

        heap = [p0]
        done = set()
        self.scanned = {}  # pos -> list of (terminal, end)
        while heap:
            k = heapq.heappop(heap)
            if k in done:
                continue
            done.add(k)
            close(k)
            for pi, d, o in list(chart[k]):
                r = rhs(pi)
                if d < len(r) and not is_nt(r[d]) and k < n:
                    e = g.tdefs[r[d]].match(text, k, ignore_case)
                    if e is not None:
                        nx = skip(text, e)
                        self.scanned.setdefault(k, set()).add((r[d], e))
                        if nx not in chart:
                            chart[nx] = set()
                            heapq.heappush(heap, nx)
                        chart[nx].add((pi, d + 1, o))
        self.chart = chart
        self.p0 = p0
        self.n = n
        self.accepted = n in chart and (-1, 1, p0) in chart[n]
        self.farthest = max(chart)

    def expected_at(self, k):
        """Terminals after the dot in the item set at canonical position k
        (+ 'STOP' if the start item is complete there)."""
        exp = set()
        for pi, d, o in self.chart.get(k, ()):
            r = (self.g.start,) if pi == -1 else self.g.prods[pi][1]
            if d < len(r) and not is_nt(r[d]):
                exp.add(r[d])
        if (-1, 1, self.p0) in self.chart.get(k, ()):
            exp.add("STOP")
        return exp

    def dead_positions(self):
        """Reached canonical positions from which nothing was scanned."""
        return sorted(k for k in self.chart if k not in self.scanned)


# ---------------------------------------------------------------------------
# canonical LR(1) / LALR(1) / SLR(1)
# ---------------------------------------------------------------------------


def first_sets(g):
    nl = g.nullable()
    F = {n: set() for n in g.nts}
    ch = True
    while ch:
        ch = False
        for l, r in g.prods:
            for s in r:
                add = {s} if not is_nt(s) else F[s]
                if not add <= F[l]:
                    F[l] |= add
                    ch = True
                if not (is_nt(s) and s in nl):
                    break
    return F, nl


def first_seq(seq, F, nl):
    out = set()
    for s in seq:
        if not is_nt(s):
            out.add(s)
            return out, False
        out |= F[s]
        if s not in nl:
            return out, False
    return out, True


def follow_sets(g, start=None):
    start = start or g.start
    F, nl = first_sets(g)
    FO = {n: set() for n in g.nts}
    FO[start].add("$")
    ch = True
    while ch:
        ch = False
        for l, r in g.prods:
            for i, s in enumerate(r):
                if is_nt(s):
                    fs, eps = first_seq(r[i + 1 :], F, nl)
                    add = set(fs)
                    if eps:
                        add |= FO[l]
                    if not add <= FO[s]:
                        FO[s] |= add
                        ch = True
    return FO


class LR1:
    """Canonical LR(1) automaton for start symbol `start` ('$' = end)."""

    def __init__(self, g, start=None):
        self.g = g
        self.start = start or g.start
        F, nl = first_sets(g)
        prods = g.prods

        def rhs(pi):
            return (self.start,) if pi == -1 else prods[pi][1]

        self.rhs = rhs

        def closure(items):
            items = set(items)
            st = list(items)
            while st:
                pi, d, la = st.pop()
                r = rhs(pi)
                if d < len(r) and is_nt(r[d]):
                    fs, eps = first_seq(r[d + 1 :], F, nl)
                    las = set(fs)
                    if eps:
                        las.add(la)
                    for qi, _ in g.by[r[d]]:
                        for b in las:
                            it = (qi, 0, b)
                            if it not in items:
                                items.add(it)
                                st.append(it)
            return frozenset(items)

        s0 = closure({(-1, 0, "$")})
        states = [s0]
        idx = {s0: 0}
        trans = {}
        i = 0
        while i < len(states):
            s = states[i]
            bysym = {}
            for pi, d, la in s:
                r = rhs(pi)
                if d < len(r):
                    bysym.setdefault(r[d], set()).add((pi, d + 1, la))
            for sym, k in sorted(bysym.items()):
                t = closure(k)
                if t not in idx:
                    idx[t] = len(states)
                    states.append(t)
                trans[(i, sym)] = idx[t]
            i += 1
        self.states = states
        self.trans = trans
        self.acts = [self._actions(s) for s in states]

    def _actions(self, s):
        a = {}
        for pi, d, la in s:
            r = self.rhs(pi)
            if d == len(r):
                if pi == -1:
                    a.setdefault("$", set()).add(("acc",))
                else:
                    a.setdefault(la, set()).add(("r", pi))
            elif not is_nt(r[d]):
                a.setdefault(r[d], set()).add(("s",))
        return a

    @staticmethod
    def core(s):
        return frozenset((pi, d) for pi, d, la in s)

    def lalr_actions(self):
        out = {}
        for s, a in zip(self.states, self.acts):
            m = out.setdefault(self.core(s), {})
            for t, v in a.items():
                m.setdefault(t, set()).update(v)
        return out

    def slr_actions(self):
        """core -> actions with FOLLOW-set reductions."""
        FO = follow_sets(self.g, self.start)
        out = {}
        for s in self.states:
            c = self.core(s)
            if c in out:
                continue
            a = {}
            for pi, d in c:
                r = self.rhs(pi)
                if d == len(r):
                    if pi == -1:
                        a.setdefault("$", set()).add(("acc",))
                    else:
                        for la in FO[self.g.prods[pi][0]]:
                            a.setdefault(la, set()).add(("r", pi))
                elif not is_nt(r[d]):
                    a.setdefault(r[d], set()).add(("s",))
            out[c] = a
        return out

    def is_lalr1(self):
        return not any(len(v) > 1 for m in self.lalr_actions().values() for v in m.values())

    def is_lr1(self):
        return not any(len(v) > 1 for a in self.acts for v in a.values())


# ---------------------------------------------------------------------------
# generators
# ---------------------------------------------------------------------------

NT_NAMES = ["S", "A", "B", "C"]


def rand_grammar(rng, nnt=3, terms="ab", maxalts=3, maxlen=3, eps_weight=1, tdefs=None):
    nts = NT_NAMES[:nnt]
    lens = [0] * eps_weight + [1, 1, 2, 2, 2, 3]
    lens = [x for x in lens if x <= maxlen]
    prods = []
    syms = nts + list(terms)
    for n in nts:
        k = rng.randint(1, maxalts)
        seen = set()
        for _ in range(k):
            L = rng.choice(lens)
            r = tuple(rng.choice(syms) for _ in range(L))
            if r in seen:
                continue
            seen.add(r)
            prods.append((n, r))
    return G(prods, "S", tdefs)


def rand_ok_grammar(rng, tries=200, acyclic=False, **kw):
    for _ in range(tries):
        g = rand_grammar(rng, **kw)
        if not g.ok():
            continue
        if acyclic and g.cyclic():
            continue
        return g
    return None


def tiny_grammars(syms=("S", "A", "a"), max_alts=2, max_len=2):
    """Systematic enumeration of tiny grammars over S, A and one terminal."""
    rhss = [()]
    for L in range(1, max_len + 1):
        rhss += list(itertools.product(syms, repeat=L))
    alts = [c for k in range(1, max_alts + 1) for c in itertools.combinations(rhss, k)]
    for sa in alts:
        for aa in alts:
            prods = [("S", r) for r in sa] + [("A", r) for r in aa]
            g = G(prods, "S")
            if g.ok():
                yield g


def min_lengths(g):
    """Shortest terminal string (in tokens) derivable from each nonterminal."""
    INFL = 10**9
    m = {n: INFL for n in g.nts}
    best = {}
    ch = True
    while ch:
        ch = False
        for l, r in g.prods:
            v = sum(m[x] if is_nt(x) else 1 for x in r)
            if v < m[l]:
                m[l] = v
                # assigned only on strict decrease: following `best` is well founded
                best[l] = r
                ch = True
    return m, best


def rand_sentence(g, rng, target):
    """Random sentence (list of terminal names) of roughly `target` tokens, by
    random leftmost expansion with a length budget; None if nothing is derivable."""
    mb = g._cache.get("minlen")
    if mb is None:
        mb = g._cache["minlen"] = min_lengths(g)
    m, best = mb
    if m[g.start] >= 10**9:
        return None

    def plen(r):
        return sum(m[x] if is_nt(x) else 1 for x in r)

    out = []
    # explicit stack of (symbol, budget, depth)
    st = [(g.start, target, 0)]
    steps = 0
    while st:
        sym, budget, depth = st.pop()
        steps += 1
        if not is_nt(sym):
            out.append(sym)
            continue
        alts = [r for _, r in g.by[sym] if plen(r) < 10**9]
        fit = [r for r in alts if plen(r) <= budget]
        if steps > 20000:
            return None
        if depth > 60 or steps > 4000 or not fit:
            r = best[sym]
        else:
            # prefer alternatives that can use the budget (recursive ones)
            big = [r for r in fit if any(is_nt(x) for x in r)]
            r = rng.choice(big) if big and budget > 1 and rng.random() < 0.8 else rng.choice(fit)
        spare = max(0, budget - plen(r))
        # distribute the spare budget over the nonterminals of the alternative
        nts = [i for i, x in enumerate(r) if is_nt(x)]
        share = {i: 0 for i in nts}
        if nts:
            for _ in range(min(spare, 64)):
                share[rng.choice(nts)] += max(1, spare // 64)
        for i in reversed(range(len(r))):
            x = r[i]
            st.append((x, (m[x] + share[i]) if is_nt(x) else 1, depth + 1))
    return out


def all_strings(alphabet, maxlen, minlen=0):
    for L in range(minlen, maxlen + 1):
        for w in itertools.product(alphabet, repeat=L):
            yield "".join(w)


# Fixed adversarial corpus: grammars from the repository's special-grammar
# tests, classic GLR stress grammars and the minimal witnesses of findings.
def G_(spec, tdefs=None):
    """'S: A a | b; A: | S' style shorthand -> G ('|' alternatives, empty = epsilon)."""
    prods = []
    start = None
    for rule in spec.split(";"):
        rule = rule.strip()
        if not rule:
            continue
        lhs, rhs = rule.split(":")
        lhs = lhs.strip()
        if start is None:
            start = lhs
        for alt in rhs.split("|"):
            prods.append((lhs, tuple(alt.split())))
    return G(prods, start, tdefs)


CORPUS = [
    # (name, grammar, alphabet)
    ("kf-c02", G_("S: | A a; A: S S"), "a"),
    ("kf-c03", G_("S: S S | A a; A:"), "a"),
    ("prop-c03", G_("S: A S | b; A: S | a"), "ab"),
    ("prop-c05", G_("S: a | a A; A: S S a | a"), "a"),
    ("kf-c05-1", G_("S: a | a A; A: a | S S"), "a"),
    ("kf-c05-3", G_("S: A b; A: | a"), "ab"),
    ("expr", G_("E: E p E | E m E | n"), "pmn"),
    ("catalan", G_("E: E E | a"), "a"),
    ("g7", G_("S: a S a | B S b | x; B: b"), "abx"),
    ("g8", G_("S: x | B S b | A1 S b; B: A1 A1; A1:"), "xb"),
    ("cyclic1", G_("S: S | A; A: a | b"), "ab"),
    ("cyclic2", G_("S: S S | S | a"), "a"),
    ("cyclic3", G_("S: S A | A; A: a |"), "a"),
    ("right-nullable", G_("S: A A A A; A: a | E1; E1:"), "a"),
    ("gamma2", G_("S: b | S S | S S S"), "b"),
    ("nozohoor", G_("S: A S b | x; A:"), "xb"),
    ("hidden-left", G_("S: A S b | a; A:"), "ab"),
    ("hidden-right", G_("S: a S A | ; A:"), "a"),
    ("lr2", G_("S: A x a | B x b; A: c; B: c"), "abcx"),
    ("reduce-enough-empty", G_("S: A b; A: A1 B1 | ; A1: ; B1:"), "b"),
    ("dangling", G_("S: i S | i S e S | a"), "iea"),
    ("palin", G_("S: a S a | b S b | a | b |"), "ab"),
    ("nested-null", G_("S: A B C; A: a | ; B: b | A; C: | A B"), "ab"),
    ("unit-chain", G_("S: A; A: B; B: C; C: a | S b"), "ab"),
]


def overlap_tdefs(rng, names):
    """Overlapping vocabulary with equal priorities (for C01/C02 lexical overlap)."""
    pool = [
        ("str", "a"),
        ("str", "aa"),
        ("str", "ab"),
        ("str", "b"),
        ("re", "a+"),
        ("re", "[ab]"),
        ("re", "ab?"),
        ("re", "b+"),
        ("re", "[ab]{2}"),
        ("str", "ba"),
    ]
    out = {}
    used = set()
    for n in names:
        for _ in range(20):
            k, t = rng.choice(pool)
            if (k, t) not in used:
                used.add((k, t))
                out[n] = TDef(k, t)
                break
        else:
            out[n] = TDef("str", n)
    return out


# Lexical ambiguity with tokens of different lengths, some of which span layout
# characters: heads at different positions meet in one shift, a longer token
# can end in or after trailing layout.  Inputs are strings over LEX_ALPHABET.
LEX_ALPHABET = "ab "
LEX_CORPUS = [
    ("lex-span", G_("S: P w; P: A | ; A: a", {"a": TDef("str", "a"), "w": TDef("re", "[a-z][a-z ]*[a-z]")})),
    ("lex-runs", G_("S: B; A: x | x x A; B: | A y", {"x": TDef("re", "[ab]"), "y": TDef("re", "b+")})),
    ("lex-mixed", G_("S: c | B S b | S A B; A: a | S; B: | c", {"c": TDef("re", "b+"), "b": TDef("str", "a"), "a": TDef("re", "[ab]{2}")})),
    ("lex-rest-of-line", G_("S: t | W; W: w | W w", {"t": TDef("re", "[a-z ]+"), "w": TDef("re", "[a-z]+")})),
    ("lex-word-pairs", G_("S: X Y | z; X: p; Y: q |", {"p": TDef("re", "a+"), "q": TDef("re", "a*b"), "z": TDef("re", "a+[ ]?b")})),
    ("lex-sep", G_("S: I | I s S; I: i | i i", {"i": TDef("re", "[ab]"), "s": TDef("re", "[ ]*b[ ]*")})),
]
