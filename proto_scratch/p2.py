import random, sys, itertools, time
from ref import *
import parglare
from parglare import Grammar, GLRParser, Parser
seed=int(sys.argv[1]) if len(sys.argv)>1 else 0
N=int(sys.argv[2]) if len(sys.argv)>2 else 300
rng=random.Random(seed)
stats=dict(gr=0,cases=0,missing=0,extra=0,dup=0,acc_mismatch=0,other=0,cyc=0, hang=0)
import signal
class TO(Exception): pass
def h(*a): raise TO()
signal.signal(signal.SIGALRM,h)
seen_fail={}
for gi in range(N):
    g=rand_grammar(rng)
    if not ok(g): continue
    cyc=g.cyclic()
    txt=g.text()
    try:
        signal.alarm(5)
        pg=Grammar.from_string(txt)
        p=GLRParser(pg)
        signal.alarm(0)
    except TO:
        stats['hang']+=1; print('HANG build', repr(txt)); continue
    except Exception as e:
        signal.alarm(0)
        stats['other']+=1; print('BUILD', type(e).__name__, str(e)[:100], repr(txt)); continue
    stats['gr']+=1
    if cyc: stats['cyc']+=1
    # prod ids: parglare productions order == our text order? map by (lhs, rhs names)
    pmap={}
    for pr in pg.productions[1:]:
        key=(pr.symbol.name, tuple(s.name for s in pr.rhs if s.name!="EMPTY"))
        pmap[pr.prod_id]=key
    def conv(node):
        if node.is_term(): return ('t',node.value,node.start_position)
        return (pmap[node.production.prod_id], tuple(conv(c) for c in node.children))
    def rconv(t):
        if t[0]=='t': return t
        l,r=g.prods[t[0]]
        return ((l,r), tuple(rconv(c) for c in t[1]))
    for L in range(0,5):
        for w in itertools.product('ab',repeat=L):
            w=''.join(w)
            stats['cases']+=1
            if cyc:
                # only acceptance: use CYK-like recognizer? skip trees
                continue
            ref=[rconv(t) for t in trees(g,w)]
            try:
                signal.alarm(10)
                f=p.parse(w)
                n=len(f)
                got=[conv(t) for t in f] if n<2000 else None
                signal.alarm(0)
            except parglare.SyntaxError:
                signal.alarm(0)
                if ref:
                    stats['acc_mismatch']+=1; print('REJECTS sentence', repr(txt), repr(w), len(ref))
                continue
            except TO:
                stats['hang']+=1; print('HANG parse', repr(txt), repr(w)); continue
            except Exception as e:
                signal.alarm(0)
                stats['other']+=1; print('EXC', type(e).__name__, str(e)[:80], repr(txt), repr(w)); continue
            if not ref:
                stats['acc_mismatch']+=1; print('ACCEPTS non-sentence', repr(txt), repr(w)); continue
            if got is None: continue
            sref=set(ref); sgot=set(got)
            if len(sgot)!=len(got):
                stats['dup']+=1
                if txt not in seen_fail: print('DUP', repr(txt), repr(w), len(got), len(sgot), len(sref))
                seen_fail[txt]=1
            if sref-sgot:
                stats['missing']+=1
                if txt not in seen_fail: print('MISSING', repr(txt), repr(w), len(sref-sgot), 'of', len(sref))
                seen_fail[txt]=1
            if sgot-sref:
                stats['extra']+=1; print('EXTRA', repr(txt), repr(w))
print(stats)
