"""Reference canonical LR(1) / LALR(1) for grammars G (ref.py form). '$' = end."""
from ref import *
def first_sets(g):
    nl=g.nullable()
    F={n:set() for n in g.nts}
    ch=True
    while ch:
        ch=False
        for l,r in g.prods:
            for s in r:
                add={s} if not s.isupper() else F[s]
                if not add<=F[l]: F[l]|=add; ch=True
                if not (s.isupper() and s in nl): break
    return F,nl
def first_seq(seq,F,nl):
    out=set()
    for s in seq:
        if not s.isupper():
            out.add(s); return out,False
        out|=F[s]
        if s not in nl: return out,False
    return out,True
def lr1(g):
    """returns states: list of frozenset items (pi,dot,la); trans: dict (state, sym)->state. prod -1 = S'->S"""
    F,nl=first_sets(g)
    prods=g.prods
    def rhs(pi): return (g.start,) if pi==-1 else prods[pi][1]
    def closure(items):
        items=set(items); st=list(items)
        while st:
            pi,d,la=st.pop()
            r=rhs(pi)
            if d<len(r) and r[d].isupper():
                fs,eps=first_seq(r[d+1:],F,nl)
                las=set(fs)
                if eps: las.add(la)
                for qi,_ in g.by[r[d]]:
                    for b in las:
                        it=(qi,0,b)
                        if it not in items: items.add(it); st.append(it)
        return frozenset(items)
    s0=closure({(-1,0,'$')})
    states=[s0]; idx={s0:0}; trans={}
    i=0
    while i<len(states):
        s=states[i]
        bysym={}
        for pi,d,la in s:
            r=rhs(pi)
            if d<len(r): bysym.setdefault(r[d],set()).add((pi,d+1,la))
        for sym,k in sorted(bysym.items()):
            t=closure(k)
            if t not in idx: idx[t]=len(states); states.append(t)
            trans[(i,sym)]=idx[t]
        i+=1
    return states,trans,rhs
def actions_lr1(g):
    states,trans,rhs=lr1(g)
    acts=[]
    for i,s in enumerate(states):
        a={}
        for pi,d,la in s:
            r=rhs(pi)
            if d==len(r):
                if pi==-1: a.setdefault('$',set()).add(('acc',))
                else: a.setdefault(la,set()).add(('r',pi))
            elif not r[d].isupper():
                a.setdefault(r[d],set()).add(('s',))
        acts.append(a)
    return states,trans,acts
def lalr_from_lr1(g):
    """merge LR1 states by core; returns mapping core->actions union"""
    states,trans,acts=actions_lr1(g)
    core=lambda s: frozenset((pi,d) for pi,d,la in s)
    out={}
    for s,a in zip(states,acts):
        c=core(s)
        m=out.setdefault(c,{})
        for t,v in a.items(): m.setdefault(t,set()).update(v)
    return out,states,trans,acts,core
