import parglare
from parglare import Grammar, Parser, GLRParser
def tryg(txt, inputs, cls=Parser, **kw):
    print('---', repr(txt), cls.__name__, kw)
    try:
        g=Grammar.from_string(txt); p=cls(g, **kw)
    except Exception as e:
        print('   BUILD', type(e).__name__, str(e)[:200]); return
    for i in inputs:
        try:
            r=p.parse(i)
            if cls is GLRParser:
                print('   ', repr(i), '->', len(r), [p.call_actions(t) for t in list(r)[:4]])
            else: print('   ', repr(i), '->', r)
        except Exception as e: print('   ', repr(i), type(e).__name__, str(e).splitlines()[0][:100])
# greedy sharing: a* and a*! in same grammar
tryg('S: "a"* "a"*! "b";', ['aab','b'], GLRParser)
tryg('S: "a"*! "a"* "b";', ['aab','b'], GLRParser)
tryg('S: "a"* "a"* "b";', ['aab'], GLRParser)
tryg('S: "a"+! "a"* "b";', ['aab','ab'], GLRParser)
tryg('S: "a"?! "a"? "b";', ['ab','aab','b'], GLRParser)
tryg('S: x=A* y=A*! "b"; A: "a";', ['aab'], GLRParser)
# user rule named like generated helper
tryg('S: a+ a_1; a_1: "x"; terminals a: "a";', ['aax','ax'])
tryg('S: a? a_opt; a_opt: "x"; terminals a: "a";', ['ax','x'])
# separator variants
tryg('S: a*[comma] "b"; terminals a: "a"; comma: ",";', ['a,a b','b','a b'])
tryg('S: a+[comma] a+; terminals a: "a"; comma: ",";', ['a,a a'])
tryg('S: a+[sep]; sep: ";" | ","; terminals a: "a";', ['a;a,a'])
tryg('S: (a b)+[comma]; terminals a: "a"; b: "b"; comma: ",";', ['a b, a b'])
tryg('S: (a | b c)* d?; terminals a: "a"; b: "b"; c:"c"; d:"d";', ['a b c a d',''])
tryg('S: (a (b|c)+)? ; terminals a: "a"; b: "b"; c:"c";', ['a b c',''])
tryg('S: a?[comma]; terminals a: "a"; comma: ",";', ['a'])
tryg('S: A+; A: "a" | EMPTY;', ['aa'], GLRParser)
tryg('S: a* a; terminals a: "a";', ['aaa'])
tryg('S: a* a; terminals a: "a";', ['aaa'], GLRParser)
tryg('S: a*! a; terminals a: "a";', ['aaa'], GLRParser)
