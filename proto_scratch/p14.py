# C06 probe: random operator tables vs precedence climbing
import sys, random, itertools
import parglare
from parglare import Grammar, Parser, GLRParser
seed=int(sys.argv[1]); N=int(sys.argv[2])
rng=random.Random(seed)
OPS='+-*/^%'
def climb(tokens, table):
    # tokens list; table op->(prio,assoc); returns nested tuple
    pos=[0]
    def atom():
        t=tokens[pos[0]]; pos[0]+=1
        if t=='(':
            e=expr(0); pos[0]+=1; return ('(',e,')')
        return t
    def expr(minp):
        lhs=atom()
        while pos[0]<len(tokens) and tokens[pos[0]] in table and table[tokens[pos[0]]][0]>=minp:
            op=tokens[pos[0]]; p,a=table[op]; pos[0]+=1
            rhs=expr(p+1 if a=='left' else p)
            lhs=(lhs,op,rhs)
        return lhs
    return expr(0)
def norm(r):
    if isinstance(r,list):
        if len(r)==3: return (norm(r[0]),norm(r[1]),norm(r[2]))
        if len(r)==1: return norm(r[0])
    return r
def gen_expr(rng, ops, depth):
    if depth==0 or rng.random()<0.3: return ['n']
    k=rng.random()
    if k<0.15: return ['(']+gen_expr(rng,ops,depth-1)+[')']
    return gen_expr(rng,ops,depth-1)+[rng.choice(ops)]+gen_expr(rng,ops,depth-1)
st=dict(tables=0,cases=0,bad=0,buildfail=0,glrbad=0)
for ti in range(N):
    nops=rng.randint(1,5); ops=rng.sample(OPS,nops)
    nlev=rng.randint(1,nops); levels=[rng.randint(1,nlev) for _ in ops]
    lev_assoc={l:rng.choice(['left','right']) for l in set(levels)}
    table={o:(l,lev_assoc[l]) for o,l in zip(ops,levels)}
    alts=['E "%s" E {%s, %d}'%(o,table[o][1],table[o][0]) for o in ops]+['"(" E ")"','"n"']
    rng.shuffle(alts)
    txt='E: '+' | '.join(alts)+';'
    try:
        g=Grammar.from_string(txt); p=Parser(g, prefer_shifts=False, prefer_shifts_over_empty=False); glr=GLRParser(g)
    except Exception as e:
        st['buildfail']+=1; print('BUILD', type(e).__name__, repr(txt)); continue
    st['tables']+=1
    for _ in range(30):
        toks=gen_expr(rng,ops,3)
        if len(toks)>15: continue
        st['cases']+=1
        want=climb(toks,table)
        got=norm(p.parse(' '.join(toks)))
        if got!=want:
            st['bad']+=1
            if st['bad']<10: print('LR', repr(txt), ' '.join(toks), got, want)
        f=glr.parse(' '.join(toks))
        if len(f)!=1 or norm(glr.call_actions(f[0]))!=want:
            st['glrbad']+=1
            if st['glrbad']<10: print('GLR', repr(txt), ' '.join(toks), len(f))
print(st)
