# C09 probe: on-the-fly vs build_tree+call_actions vs GLR call_actions, instrumented actions; with named matches & action lists
import sys, random, itertools, io, contextlib
from ref import *
import parglare
from parglare import Grammar, GLRParser, Parser
seed=int(sys.argv[1]); N=int(sys.argv[2])
rng=random.Random(seed)
st=dict(gr=0,cases=0,diff_tree=0,diff_glr=0,exc=0,named=0,lists=0, ctxpos_bad=0)
def render(g, named):
    lines=[]
    for n in [g.start]+[x for x in g.nts if x!=g.start]:
        alts=[]
        for pi,r in g.by[n]:
            parts=[]
            for k,s in enumerate(r):
                ref=s if s.isupper() else '"%s"'%s
                if (pi,k) in named: ref='%s%s%s'%(named[(pi,k)][0],named[(pi,k)][1],ref)
                parts.append(ref)
            alts.append(' '.join(parts) if parts else 'EMPTY')
        lines.append('%s: %s;'%(n,' | '.join(alts)))
    return '\n'.join(lines)
for gi in range(N):
    g=rand_grammar(rng)
    if not ok(g) or g.cyclic(): continue
    # choose named matches: per nonterminal all-or-nothing (named matches on some alternatives)
    named={}
    for n in g.nts:
        if rng.random()<0.4:
            for pi,r in g.by[n]:
                for k,s in enumerate(r):
                    if rng.random()<0.5: named[(pi,k)]=('m%d'%k, rng.choice(['=','?=']))
    txt=render(g,named)
    def mk(kind):
        acts={}
        for n in g.nts:
            alts=g.by[n]
            has_named=any((pi,k) in named for pi,r in alts for k in range(len(r)))
            if kind=='list':
                acts[n]=[ (lambda ctx,nodes,_n=n,_i=i,**kw: (_n,_i,tuple(nodes),tuple(sorted(kw.items())),ctx.start_position,ctx.end_position)) for i,_ in enumerate(alts)]
            else:
                acts[n]=(lambda ctx,nodes,_n=n,**kw: (_n,tuple(nodes),tuple(sorted(kw.items())),ctx.start_position,ctx.end_position))
        return acts
    for kind in ('single','list'):
        try:
            with contextlib.redirect_stdout(io.StringIO()):
                p1=Parser(Grammar.from_string(txt),actions=mk(kind),prefer_shifts=False,prefer_shifts_over_empty=False)
                p2=Parser(Grammar.from_string(txt),actions=mk(kind),prefer_shifts=False,prefer_shifts_over_empty=False,build_tree=True)
                p3=GLRParser(Grammar.from_string(txt),actions=mk(kind))
        except Exception as e: continue
        st['gr']+=1
        if named: st['named']+=1
        if kind=='list': st['lists']+=1
        for L in range(0,5):
            for w in itertools.product('ab',repeat=L):
                w=' '.join(w)
                try: r1=p1.parse(w)
                except parglare.SyntaxError: continue
                except Exception as e:
                    if w!='': st['exc']+=1; print('EXC1',type(e).__name__,e,repr(txt),repr(w))
                    continue
                st['cases']+=1
                try:
                    r2=p2.call_actions(p2.parse(w))
                    if r1!=r2:
                        st['diff_tree']+=1
                        if st['diff_tree']<6: print('DIFF tree',kind,repr(txt),repr(w),r1,r2)
                    f=p3.parse(w)
                    if len(f)==1:
                        r3=p3.call_actions(f[0])
                        if r1!=r3:
                            st['diff_glr']+=1
                            if st['diff_glr']<6: print('DIFF glr',kind,repr(txt),repr(w),r1,r3)
                except Exception as e:
                    st['exc']+=1
                    if st['exc']<6: print('EXC',type(e).__name__,str(e)[:100],kind,repr(txt),repr(w))
print(st)
