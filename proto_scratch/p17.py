# C11 probe: error recovery termination + span discipline (LR with prefer_shifts default, and GLR)
import sys, random, itertools, signal
from ref import *
import parglare
from parglare import Grammar, GLRParser, Parser
class TO(Exception): pass
def h(*a): raise TO()
signal.signal(signal.SIGALRM,h)
seed=int(sys.argv[1]); N=int(sys.argv[2])
rng=random.Random(seed)
st=dict(gr=0,cases=0,hang=0,spanbad=0,exc=0,rec=0,raised=0, sent_err=0, cover_bad=0)
def spans_ok(errs, n):
    prev=-1; 
    for e in errs:
        s,t=e.location.start_position,e.location.end_position
        if not (isinstance(s,int) and isinstance(t,int) and 0<=s<=t<=n): return 'range %s %s'%(s,t)
        if s<prev: return 'overlap/order %s<%s'%(s,prev)
        prev=t
    return None
for gi in range(N):
    g=rand_grammar(rng)
    if not ok(g) or g.cyclic(): continue
    txt=g.text()
    ps={}
    try:
        signal.alarm(3); pg=Grammar.from_string(txt); ps['glr']=GLRParser(pg, error_recovery=True); signal.alarm(0)
    except Exception as e: signal.alarm(0); continue
    try:
        signal.alarm(3); ps['lr']=Parser(pg, error_recovery=True, build_tree=True); signal.alarm(0)
    except Exception as e: signal.alarm(0)
    st['gr']+=1
    for L in range(0,5):
        for w in itertools.product('abx',repeat=L):
            w=' '.join(w)
            for name,p in ps.items():
                st['cases']+=1
                try:
                    signal.alarm(5); r=p.parse(w); signal.alarm(0)
                    errs=list(p.errors)
                    if errs: st['rec']+=1
                    m=spans_ok(errs,len(w))
                    if m:
                        st['spanbad']+=1
                        if st['spanbad']<10: print('SPAN',name,repr(txt),repr(w),m,[(e.location.start_position,e.location.end_position) for e in errs])
                    if name=='lr':
                        # coverage: every non-ws char in exactly one leaf or one span
                        cov=[0]*len(w)
                        def leaves(n):
                            if n.is_term():
                                for i in range(n.start_position,n.end_position): cov[i]+=1
                            else:
                                for c in n.children: leaves(c)
                        leaves(r)
                        for e in errs:
                            for i in range(e.location.start_position,e.location.end_position): cov[i]+=1
                        bad=[i for i,c in enumerate(cov) if w[i]!=' ' and c!=1]
                        if bad:
                            st['cover_bad']+=1
                            if st['cover_bad']<10: print('COVER',repr(txt),repr(w),bad,[(e.location.start_position,e.location.end_position) for e in errs], r.to_str().replace('\n',' / '))
                except parglare.SyntaxError as e:
                    signal.alarm(0); st['raised']+=1
                except TO:
                    st['hang']+=1; print('HANG',name,repr(txt),repr(w))
                except Exception as e:
                    signal.alarm(0); st['exc']+=1
                    if st['exc']<10: print('EXC',name,type(e).__name__,str(e)[:60],repr(txt),repr(w))
print(st)
