# exhaustive-ish tiny grammars: find minimal MISSING / DUP / HANG
import itertools, sys, signal
from ref import *
import parglare
from parglare import Grammar, GLRParser
class TO(Exception): pass
def h(*a): raise TO()
signal.signal(signal.SIGALRM,h)
syms=['S','A','a']
rhss=[()]+[ (x,) for x in syms]+[(x,y) for x in syms for y in syms]
found={'MISSING':[], 'DUP':[], 'HANG':[], 'ACC':[]}
import random
rng=random.Random(1)
count=0
# S gets 1-2 alts, A gets 1-2 alts
alts=[c for k in (1,2) for c in itertools.combinations(rhss,k)]
pairs=[(s,a) for s in alts for a in alts]
rng.shuffle(pairs)
for sa,aa in pairs[:6000]:
    prods=[('S',r) for r in sa]+[('A',r) for r in aa]
    g=G(prods,'S')
    if not ok(g) or g.cyclic(): continue
    txt=g.text()
    try:
        signal.alarm(3); pg=Grammar.from_string(txt); p=GLRParser(pg); signal.alarm(0)
    except TO:
        found['HANG'].append(txt); continue
    except Exception as e:
        signal.alarm(0); continue
    count+=1
    pmap={pr.prod_id:(pr.symbol.name, tuple(s.name for s in pr.rhs if s.name!="EMPTY")) for pr in pg.productions[1:]}
    def conv(node):
        if node.is_term(): return ('t',node.value,node.start_position)
        return (pmap[node.production.prod_id], tuple(conv(c) for c in node.children))
    def rconv(t):
        if t[0]=='t': return t
        return (g.prods[t[0]], tuple(rconv(c) for c in t[1]))
    for L in range(1,5):
        w='a'*L
        ref=[rconv(t) for t in trees(g,w)]
        try:
            signal.alarm(5); f=p.parse(w); got=[conv(t) for t in f]; signal.alarm(0)
        except parglare.SyntaxError:
            signal.alarm(0)
            if ref: found['ACC'].append((txt,w))
            continue
        except TO:
            found['HANG'].append((txt,w)); continue
        if not ref: found['ACC'].append((txt,w)); continue
        if len(set(got))!=len(got): found['DUP'].append((len(prods),txt,w,len(got),len(set(got)),len(ref)))
        if set(ref)-set(got): found['MISSING'].append((len(prods),txt,w,len(set(got)),len(ref)))
print('grammars',count)
for k,v in found.items():
    print(k,len(v))
    for x in sorted(v,key=lambda x:(x[0] if isinstance(x[0],int) else 0, len(str(x))))[:8]: print('   ',x)
