from parglare import Grammar, GLRParser
txt='S: EMPTY | A "a";\nA: S S;'
g=Grammar.from_string(txt)
p=GLRParser(g, debug=True)
f=p.parse('aa')
print(len(f))
for t in f: print(t.to_str())
