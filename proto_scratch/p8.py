# C16 probe: table hash + forest order under different hash seeds
import sys, hashlib, json, random
from ref import *
from parglare import Grammar, GLRParser
from parglare.tables.persist import table_to_serializable
seed=int(sys.argv[1]); N=int(sys.argv[2])
rng=random.Random(seed)
out=[]
import signal
class TO(Exception): pass
def h(*a): raise TO()
signal.signal(signal.SIGALRM,h)
for gi in range(N):
    g=rand_grammar(rng)
    if not ok(g): continue
    txt=g.text()
    try:
        signal.alarm(3); pg=Grammar.from_string(txt); p=GLRParser(pg); signal.alarm(0)
    except Exception: signal.alarm(0); out.append((txt,'X')); continue
    hh=hashlib.sha256(json.dumps(table_to_serializable(p.table),sort_keys=True).encode()).hexdigest()[:12]
    fo=[]
    if not g.cyclic():
        for w in ['a','ab','aab','abab','bb']:
            try:
                signal.alarm(3); f=p.parse(w); 
                fo.append(hashlib.sha256('|'.join(t.to_str() for t in list(f)[:50]).encode()).hexdigest()[:8]); signal.alarm(0)
            except Exception as e: signal.alarm(0); fo.append(type(e).__name__)
    out.append((txt,hh,fo))
json.dump(out,open(sys.argv[3],'w'))
