import sys, signal
from parglare import Grammar, GLRParser, Parser
import parglare.tables as T
txt='S: "a" | "a" A;\nA: "a" | S S;'
g=Grammar.from_string(txt)
orig=T.merge_states
n=[0,0]
def ms(o,nw):
    r=orig(o,nw); n[0]+=1; n[1]+= (not r)
    if n[0]>200: raise RuntimeError('too many merges %s refused %s'%tuple(n))
    if not r: print('refused merge into state', o.state_id, o.symbol, [(str(i.production.prod_id),i.position,sorted(t.name for t in i.follow)) for i in o.kernel_items], 'new', [(str(i.production.prod_id),i.position,sorted(t.name for t in i.follow)) for i in nw.kernel_items])
    return r
T.merge_states=ms
try:
    GLRParser(g)
except RuntimeError as e: print(e)
