import parglare, os, tempfile, json, shutil
from parglare import Grammar, Parser, GLRParser, SLR, LALR
# C15: failed construction then success
txt='E: E "+" E | E "*" E | "n";'
g=Grammar.from_string(txt)
try: Parser(g, prefer_shifts=False)
except Exception as e: print('expected fail', type(e).__name__)
p=Parser(g); print(p.parse('n+n*n'))
glr=GLRParser(g); print(len(glr.parse('n+n*n')))
# grammar with LAYOUT; build layout parser failing?
txt2='S: "a" S | "a"; LAYOUT: LayoutItem | LAYOUT LayoutItem | EMPTY; LayoutItem: WS | Comment; terminals WS: /\\s+/; Comment: /\\/\\/.*/;'
g2=Grammar.from_string(txt2)
p1=GLRParser(g2); print(len(p1.parse('a //x\n a')))
print([ (pr.prod_id, str(pr.symbol), [str(s) for s in pr.rhs]) for pr in g2.productions[:1]])
p2=Parser(g2, tables=SLR); print(p2.parse('a a //c'))
print(len(p1.parse('a //x\n a')))
# exception inside action then reuse
calls=[]
def act(ctx, nodes):
    if len(calls)==0: calls.append(1); raise ValueError('boom')
    return nodes
g3=Grammar.from_string('S: "a" S | "a";')
p3=Parser(g3, actions={'S':act})
try: p3.parse('a a')
except ValueError: print('boom ok')
print(p3.parse('a a'))
# GLR error then ok; recovery then ok
g4=Grammar.from_string('S: "a" S | "a";')
p4=GLRParser(g4, error_recovery=True)
try:
    f=p4.parse('a b a'); print('rec', len(f), [ (e.location.start_position,e.location.end_position) for e in p4.errors])
except Exception as e: print('E', type(e).__name__, e)
print(len(p4.parse('a a')), p4.errors)
try: p4.parse('b')
except Exception as e: print('E', type(e).__name__)
print(len(p4.parse('a a')), p4.errors)
# C12: cache options
d=tempfile.mkdtemp(dir='/tmp/probe')
gf=os.path.join(d,'g.pg'); open(gf,'w').write('E: E "+" E | E "*" E | "n";')
g5=Grammar.from_file(gf)
lr=Parser(g5); print('LR', lr.parse('n+n*n'))
g6=Grammar.from_file(gf)
glr=GLRParser(g6); print('GLR after LR', len(glr.parse('n+n*n')))
os.remove(os.path.join(d,'g.pgc'))
g6=Grammar.from_file(gf); glr=GLRParser(g6); print('GLR fresh', len(glr.parse('n+n*n')))
g7=Grammar.from_file(gf)
try: Parser(g7); print('LR after GLR ok')
except Exception as e: print('LR after GLR', type(e).__name__)
# truncated
data=open(os.path.join(d,'g.pgc')).read()
open(os.path.join(d,'g.pgc'),'w').write(data[:len(data)//2])
try: GLRParser(Grammar.from_file(gf)); print('trunc ok')
except Exception as e: print('TRUNC', type(e).__name__, str(e)[:60])
open(os.path.join(d,'g.pgc'),'w').write('')
try: GLRParser(Grammar.from_file(gf)); print('empty ok')
except Exception as e: print('EMPTYFILE', type(e).__name__, str(e)[:60])
shutil.rmtree(d)
