# C08/C14 probe: position invariants and losslessness with random layout; LR(build_tree) for deterministic grammars + GLR trees
import sys, random, itertools, signal
from ref import *
import parglare
from parglare import Grammar, GLRParser, Parser
class TO(Exception): pass
def h(*a): raise TO()
signal.signal(signal.SIGALRM,h)
seed=int(sys.argv[1]); N=int(sys.argv[2])
rng=random.Random(seed)
st=dict(gr=0,lr=0,cases=0,bad=0,relayout_bad=0)
def check_tree(root, inp, tag, txt):
    errs=[]
    leaves=[]
    def walk(n, lo, hi):
        s,e=n.start_position,n.end_position
        if not (isinstance(s,int) and isinstance(e,int) and 0<=s<=e<=len(inp)): errs.append(('range',str(n),s,e)); return
        if not (lo<=s and e<=hi): errs.append(('outside parent',str(n),s,e,lo,hi))
        if n.is_term():
            if n.value!=inp[s:e]: errs.append(('value',n.value,inp[s:e]))
            leaves.append(n)
        else:
            prev=s
            for c in n.children:
                if c.start_position<prev: errs.append(('overlap/order',str(c),prev))
                walk(c,s,e)
                prev=c.end_position
    walk(root,0,len(inp))
    rec=''.join(l.layout_content+l.value for l in leaves)
    if not (inp.startswith(rec) and inp[len(rec):].strip()==''): errs.append(('lossless',repr(rec),repr(inp)))
    return errs
def relayout(w,rng):
    out=''
    for ch in w:
        out+=rng.choice(['',' ','  ','\n','\t '])+ch
    return out+rng.choice(['',' ','\n'])
for gi in range(N):
    g=rand_grammar(rng)
    if not ok(g) or g.cyclic(): continue
    txt=g.text()
    try:
        signal.alarm(3); pg=Grammar.from_string(txt); glr=GLRParser(pg); signal.alarm(0)
    except Exception as e: signal.alarm(0); continue
    lr=None
    try:
        signal.alarm(3); lr=Parser(pg, build_tree=True, prefer_shifts=False, prefer_shifts_over_empty=False); signal.alarm(0); st['lr']+=1
    except Exception: signal.alarm(0)
    st['gr']+=1
    for L in range(0,5):
        for w in itertools.product('ab',repeat=L):
            w=''.join(w)
            if not trees(g,w): continue
            inp=relayout(w,rng)
            st['cases']+=1
            try:
                signal.alarm(5); f=glr.parse(inp); ts=list(f)[:20]; signal.alarm(0)
            except Exception as e:
                signal.alarm(0); st['relayout_bad']+=1; print('GLR rejects relayout', repr(txt), repr(inp), type(e).__name__); continue
            for t in ts:
                errs=check_tree(t,inp,'glr',txt)
                if errs:
                    st['bad']+=1
                    if st['bad']<12: print('GLR', repr(txt), repr(inp), errs[:3])
                    break
            if lr:
                try:
                    t=lr.parse(inp)
                    errs=check_tree(t,inp,'lr',txt)
                    if errs:
                        st['bad']+=1
                        if st['bad']<12: print('LR', repr(txt), repr(inp), errs[:3])
                except Exception as e:
                    print('LR exc', repr(txt), repr(inp), type(e).__name__, str(e)[:80])
print(st)
