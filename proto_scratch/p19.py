# C07 probe: per-event comparison of _next_tokens against naive documented-order scanner
import sys, random, re, itertools
import parglare
from parglare import Grammar, Parser, GLRParser
from parglare.grammar import StringRecognizer, RegExRecognizer, STOP
from parglare.parser import STOP_token
seed=int(sys.argv[1]); N=int(sys.argv[2])
rng=random.Random(seed)
events=[]
orig=Parser._next_tokens
def wrapped(self, head):
    toks=None; exc=None
    try:
        toks=orig(self, head); return toks
    finally:
        events.append((self, head.state, head.position, head.input_str, None if toks is None else list(toks)))
Parser._next_tokens=wrapped
STR_POOL=['a','aa','ab','abc','b','ba','c','ac']
RE_POOL=['a+','[ab]+','ab?','a|ab','[a-c]','b+a?','abc?','[abc]{2}','c*a']
def ref_scan(parser, state, pos, inp):
    """documented order. returns ('tokens', set of (name,value)) for LR-disambiguated; or all max-prio matches for GLR mode"""
    exp=[t for t in state.actions if t is not STOP]
    matches=[]
    for t in exp:
        r=t.recognizer
        m=r(inp,pos)
        if m: matches.append((t,m))
    res=[]
    if STOP in state.actions and pos==len(inp): res.append(('STOP',''))
    if not matches: return res, False
    mp=max(t.prior for t,_ in matches)
    matches=[(t,m) for t,m in matches if t.prior==mp]
    explicit=any(t.finish is not None for t,_ in matches)
    if not parser.lexical_disambiguation:
        return res+[(t.name,m) for t,m in matches], explicit
    strs=[(t,m) for t,m in matches if isinstance(t.recognizer,StringRecognizer) or t.keyword]
    if strs: matches=strs
    ml=max(len(m) for t,m in matches)
    matches=[(t,m) for t,m in matches if len(m)==ml]
    if len(matches)>1:
        pref=[(t,m) for t,m in matches if t.prefer]
        if pref: matches=pref
    return res+[(t.name,m) for t,m in matches], explicit
st=dict(gr=0,events=0,bad=0,explicit_events=0,explicit_bad=0,multi=0)
for gi in range(N):
    k=rng.randint(2,5)
    terms=[]
    names=['T%d'%i for i in range(k)]
    used=set()
    for n in names:
        if rng.random()<0.5:
            v=rng.choice([s for s in STR_POOL if s not in used]); used.add(v); body='"%s"'%v
        else:
            body='/%s/'%rng.choice(RE_POOL)
        meta=[]
        if rng.random()<0.3: meta.append(str(rng.choice([5,10,15,20])))
        if rng.random()<0.2: meta.append('prefer')
        if gi%3==0 and rng.random()<0.2: meta.append(rng.choice(['finish','nofinish']))
        terms.append('%s: %s%s;'%(n,body,(' {%s}'%', '.join(meta)) if meta else ''))
    # grammar: two groups expected in different states
    g1=rng.sample(names, rng.randint(1,k)); g2=rng.sample(names, rng.randint(1,k))
    txt='S: A B | A; A: %s; B: %s;\nterminals\n%s'%(' | '.join(g1),' | '.join(g2),'\n'.join(terms))
    for mode in ('lr','glr'):
        try:
            g=Grammar.from_string(txt)
            p=GLRParser(g) if mode=='glr' else Parser(g)
        except Exception as e:
            continue
        st['gr']+=1
        for L in range(1,5):
            for w in itertools.product('abc',repeat=L):
                w=''.join(w)
                del events[:]
                try: p.parse(w)
                except Exception as e: pass
                for (ps,state,pos,inp,toks) in events:
                    if ps is not p: continue
                    st['events']+=1
                    want,explicit=ref_scan(p,state,pos,inp)
                    got=None if toks is None else [(t.symbol.name,t.value) for t in toks]
                    if explicit: st['explicit_events']+=1
                    if toks is None:
                        # DisambiguationError raised inside? _next_tokens returns list; error raised in _next_token
                        continue
                    if len(want)>1: st['multi']+=1
                    if sorted(got)!=sorted(want):
                        if explicit: st['explicit_bad']+=1
                        else:
                            st['bad']+=1
                            if st['bad']<10: print('BAD',mode,repr(txt),repr(w),pos,'got',got,'want',want)
print(st)
