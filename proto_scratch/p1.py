from parglare import Grammar, GLRParser, Parser
import parglare
# C02: a 3-production grammar with input 'a' loses a tree
tests = [
 ("S: A S | b; A: S | a; terminals a: 'a'; b: 'b';", ["b","ab","bb","abb","aab"]),
]
def run(gs, inputs, **kw):
    g = Grammar.from_string(gs)
    p = GLRParser(g, **kw)
    for i in inputs:
        try:
            f = p.parse(i)
            print(repr(i), len(f), f.ambiguities)
            for t in f:
                print(t.to_str())
                print('--')
        except parglare.SyntaxError as e:
            print(repr(i), 'SyntaxError', e.location.start_position)
        except Exception as e:
            print(repr(i), type(e).__name__, e)
run(*tests[0])
