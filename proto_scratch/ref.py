"""Throwaway prototype: reference CFG derivation enumerator + random grammar gen."""
import itertools, random, sys
from functools import lru_cache

class G:
    def __init__(self, prods, start):
        # prods: list of (lhs, tuple(rhs)) ; symbols: uppercase = NT, lowercase = terminal char
        self.prods = prods; self.start = start
        self.nts = sorted({l for l,_ in prods})
        self.by = {n:[(i,r) for i,(l,r) in enumerate(prods) if l==n] for n in self.nts}
    def text(self):
        lines=[]
        for n in [self.start]+[x for x in self.nts if x!=self.start]:
            alts=[]
            for _,r in self.by[n]:
                alts.append(' '.join(s if s.isupper() else '"%s"'%s for s in r) if r else 'EMPTY')
            lines.append('%s: %s;'%(n,' | '.join(alts)))
        return '\n'.join(lines)
    def productive(self):
        prod=set(); ch=True
        while ch:
            ch=False
            for l,r in self.prods:
                if l not in prod and all((not s.isupper()) or s in prod for s in r):
                    prod.add(l); ch=True
        return prod
    def minlen(self):
        INF=10**9
        ml={n:INF for n in self.nts}; ch=True
        while ch:
            ch=False
            for l,r in self.prods:
                v=sum(ml[s] if s.isupper() else 1 for s in r)
                if v<ml[l]: ml[l]=v; ch=True
        return ml
    def nullable(self):
        nl=set(); ch=True
        while ch:
            ch=False
            for l,r in self.prods:
                if l not in nl and all(s in nl for s in r):
                    nl.add(l); ch=True
        return nl
    def reachable(self):
        seen={self.start}; st=[self.start]
        while st:
            n=st.pop()
            for _,r in self.by.get(n,[]):
                for s in r:
                    if s.isupper() and s not in seen: seen.add(s); st.append(s)
        return seen
    def cyclic(self):
        nl=self.nullable()
        edges={n:set() for n in self.nts}
        for l,r in self.prods:
            for i,s in enumerate(r):
                if s.isupper() and all(x in nl for x in r[:i]+r[i+1:]):
                    edges[l].add(s)
        # cycle detection
        color={}
        def dfs(n):
            color[n]=1
            for m in edges[n]:
                if color.get(m)==1: return True
                if m not in color and dfs(m): return True
            color[n]=2; return False
        return any(n not in color and dfs(n) for n in self.nts)

def trees(g, w):
    """all derivation trees of w from start; tree = (prod_idx, (children...)) leaves = ('t',char,i). acyclic grammars only"""
    n=len(w)
    ml=g.minlen()
    def mls(r): return sum(ml[s] if s.isupper() else 1 for s in r)
    memo={}
    inprog=set()
    def nt(N,i,j):
        k=(N,i,j)
        if k in memo: return memo[k]
        if k in inprog: raise RecursionError('cyclic')
        inprog.add(k)
        out=[]
        for pi,r in g.by[N]:
            for ch in seq(r,0,i,j):
                out.append((pi,ch))
        inprog.discard(k)
        memo[k]=out
        return out
    def seq(r,p,i,j):
        if p==len(r):
            if i==j: yield ()
            return
        s=r[p]
        if not s.isupper():
            if i<j and w[i]==s:
                for rest in seq(r,p+1,i+1,j): yield (('t',s,i),)+rest
            return
        for m in range(i+ml[s],j-mls(r[p+1:])+1):
            sub=nt(s,i,m)
            if not sub: continue
            for rest in seq(r,p+1,m,j):
                for t in sub:
                    yield (t,)+rest
    return nt(g.start,0,n)

def rand_grammar(rng, nnt=3, terms='ab', maxalts=3, maxlen=3):
    nts=['S','A','B'][:nnt]
    prods=[]
    for n in nts:
        k=rng.randint(1,maxalts)
        seen=set()
        for _ in range(k):
            L=rng.choice([0,1,1,2,2,2,3][:maxlen+3])
            r=tuple(rng.choice(nts+list(terms)) for _ in range(L))
            if r in seen: continue
            seen.add(r); prods.append((n,r))
    return G(prods,'S')

def ok(g):
    if set(g.nts)-g.productive(): return False
    if set(g.nts)-g.reachable(): return False
    return True

def pg_tree(node):
    """convert parglare tree to ref form"""
    if node.is_term():
        return ('t', node.value, node.start_position)
    return (node.production.prod_id-1, tuple(pg_tree(c) for c in node.children))
