# C18 probe: dynamic filter call discipline, accept-all == no filter, for LR and GLR
import sys, random
import parglare
from parglare import Grammar, Parser, GLRParser, SHIFT, REDUCE
seed=int(sys.argv[1]); N=int(sys.argv[2])
rng=random.Random(seed)
OPS='+-*/'
def gen_expr(rng, ops, depth):
    if depth==0 or rng.random()<0.3: return ['n']
    return gen_expr(rng,ops,depth-1)+[rng.choice(ops)]+gen_expr(rng,ops,depth-1)
st=dict(tables=0,cases=0,bad_first=0,bad_unmarked=0,bad_sublen=0,acceptall_diff=0,exc=0,calls=0,glr_missing_call=0)
for ti in range(N):
    nops=rng.randint(1,3); ops=rng.sample(OPS,nops)
    dynp={o:rng.random()<0.6 for o in ops}; dynt={o:rng.random()<0.5 for o in ops}
    alts=['E op%d E%s'%(i,' {dynamic}' if dynp[o] else '') for i,o in enumerate(ops)]+['"n"']
    terms=['op%d: "%s"%s;'%(i,o,' {dynamic}' if dynt[o] else '') for i,o in enumerate(ops)]
    txt='E: '+' | '.join(alts)+';\nterminals\n'+'\n'.join(terms)
    log=[]
    def flt(context, from_state, to_state, action, production, subresults):
        log.append((action, production, subresults, to_state, context))
        return True
    for mode in ('glr','lr'):
        try:
            g=Grammar.from_string(txt)
            if mode=='glr':
                p=GLRParser(g, dynamic_filter=flt); p0=GLRParser(Grammar.from_string(txt))
            else:
                # LR needs all conflicts dynamic: mark all
                if not all(dynp.values()): continue
                p=Parser(g, dynamic_filter=flt, prefer_shifts=False); p0=None
        except Exception as e:
            st['exc']+=1; print('BUILD',mode,type(e).__name__,str(e)[:80].replace('\n',' '),repr(txt)); continue
        st['tables']+=1
        for _ in range(10):
            toks=gen_expr(rng,ops,3)
            if len(toks)>9: continue
            w=' '.join(toks); st['cases']+=1
            del log[:]
            try:
                r=p.parse(w)
            except parglare.exceptions.DynamicDisambiguationConflict:
                continue
            except Exception as e:
                st['exc']+=1; print('EXC',mode,type(e).__name__,str(e)[:80],repr(txt),w); continue
            st['calls']+=len(log)
            if not log or log[0][0] is not None or any(x is not None for x in log[0][:4]): st['bad_first']+=1; print('FIRST',mode,repr(txt),w,log[:1])
            if any(l[0] is None for l in log[1:]): st['bad_first']+=1; print('NONE again',mode)
            for action,prod,sub,to_state,ctx in log[1:]:
                if action==SHIFT and not to_state.symbol.dynamic: st['bad_unmarked']+=1; print('UNMARKED shift',mode,repr(txt),w)
                if action==REDUCE and not prod.dynamic: st['bad_unmarked']+=1; print('UNMARKED reduce',mode,repr(txt),w)
                if action==REDUCE and len(sub)!=len(prod.rhs): st['bad_sublen']+=1; print('SUBLEN',mode,len(sub),len(prod.rhs))
            if mode=='glr':
                f0=p0.parse(w)
                a=sorted(t.to_str() for t in r); b=sorted(t.to_str() for t in f0)
                if a!=b: st['acceptall_diff']+=1; print('ACCEPTALL differs',repr(txt),w,len(a),len(b))
                # completeness: count dynamic reductions in forest alternatives vs REDUCE calls (distinct prod,span)
                calls={(prod.prod_id, ctx.start_position, ctx.end_position) for action,prod,sub,to_state,ctx in log[1:] if action==REDUCE}
                need=set()
                seen=set(); stack=[r.result]
                while stack:
                    par=stack.pop()
                    if id(par) in seen: continue
                    seen.add(id(par))
                    for poss in par.possibilities:
                        if poss.is_nonterm():
                            if poss.production.dynamic: need.add((poss.production.prod_id, poss.start_position, poss.end_position))
                            stack.extend(poss.children)
                if need-calls: st['glr_missing_call']+=1; print('MISSING filter call',repr(txt),w,need-calls)
print(st)
