from parglare import Grammar, GLRParser
txt='S: EMPTY | "b" B | S "b";\nA: "a" "b";\nB: A | S;'
g=Grammar.from_string(txt)
p=GLRParser(g)
f=p.parse(' b  b ')
print(len(f))
for t in f: print(t.to_str()); print('--')
f=p.parse('bb')
for t in f: print(t.to_str()); print('--')
