# C04 soundness + C12 roundtrip + C14 ws-vs-LAYOUT quick probes
import sys, random, itertools, signal, json, io, contextlib
from ref import *
import parglare
from parglare import Grammar, GLRParser, Parser, SLR, LALR
from parglare.tables.persist import table_to_serializable, table_from_serializable
class TO(Exception): pass
def h(*a): raise TO()
signal.signal(signal.SIGALRM,h)
seed=int(sys.argv[1]); N=int(sys.argv[2])
rng=random.Random(seed)
st=dict(gr=0,lr=0,cases=0,unsound=0,badtree=0,incomplete_det=0,det=0,rt_bad=0,rt=0,layout_diff=0,layout_cases=0, glr_ne_lr=0)
LAY='\nLAYOUT: LayoutItem | LAYOUT LayoutItem | EMPTY;\nLayoutItem: WS;\nterminals\nWS: /[ \\t\\r\\n]+/;'
def canon(n):
    if n.is_term(): return ('t',n.symbol.name,n.value,n.start_position,n.end_position,n.layout_content)
    return (n.production.prod_id,n.start_position,n.end_position,n.layout_content,tuple(canon(c) for c in n.children))
def shape(n):
    if n.is_term(): return ('t',n.symbol.name,n.value,n.start_position)
    return (n.production.prod_id,tuple(shape(c) for c in n.children))
for gi in range(N):
    g=rand_grammar(rng)
    if not ok(g): continue
    txt=g.text()
    cyc=g.cyclic()
    for ps,pse,tb in itertools.product([False,True],[False,True],[LALR,SLR]):
        try:
            signal.alarm(3)
            with contextlib.redirect_stdout(io.StringIO()):
                pg=Grammar.from_string(txt); lr=Parser(pg,prefer_shifts=ps,prefer_shifts_over_empty=pse,tables=tb,build_tree=True)
            signal.alarm(0)
        except TO: continue
        except Exception as e: signal.alarm(0); continue
        st['lr']+=1
        # roundtrip
        ser=table_to_serializable(lr.table)
        t2=table_from_serializable(json.loads(json.dumps(ser)), pg)
        ser2=table_to_serializable(t2)
        st['rt']+=1
        if json.dumps(ser,sort_keys=True)!=json.dumps(ser2,sort_keys=True) or len(t2.sr_conflicts)!=len(lr.table.sr_conflicts) or len(t2.rr_conflicts)!=len(lr.table.rr_conflicts) or [sorted(x.name for x in s.dynamic) for s in t2.states]!=[sorted(x.name for x in s.dynamic) for s in lr.table.states]:
            st['rt_bad']+=1; print('ROUNDTRIP', repr(txt))
        det = (not ps and not pse) and all(len(a)==1 for s in lr.table.states for a in s.actions.values())
        if det: st['det']+=1
        glr=None
        if det:
            with contextlib.redirect_stdout(io.StringIO()): glr=GLRParser(Grammar.from_string(txt),tables=tb)
        pmap={pr.prod_id:(pr.symbol.name, tuple(s.name for s in pr.rhs if s.name!="EMPTY")) for pr in pg.productions[1:]}
        def valid(n):
            if n.is_term(): return True
            k=pmap.get(n.production.prod_id)
            if k is None: return False
            if k[0]!=n.production.symbol.name: return False
            if tuple(c.symbol.name for c in n.children)!=k[1]: return False
            return all(valid(c) for c in n.children)
        def leaves(n): return n.value if n.is_term() else ''.join(leaves(c) for c in n.children)
        for L in range(0,5):
            for w in itertools.product('ab',repeat=L):
                w=''.join(w); st['cases']+=1
                if cyc:
                    isS=None
                else:
                    isS=bool(trees(g,w)) if True else None
                try:
                    signal.alarm(5); t=lr.parse(w); signal.alarm(0)
                except parglare.SyntaxError:
                    signal.alarm(0)
                    if det and isS: st['incomplete_det']+=1; print('DET rejects sentence', repr(txt), w)
                    continue
                except TO: print('HANG LR', repr(txt), w); continue
                except Exception as e:
                    signal.alarm(0)
                    if not (w=='' and isinstance(e,IndexError)): print('EXC',type(e).__name__,repr(txt),w)
                    continue
                if isS is False: st['unsound']+=1; print('UNSOUND', repr(txt), w, ps,pse,tb)
                if not (valid(t) and t.production.symbol.name=='S' and leaves(t)==w): st['badtree']+=1; print('BADTREE', repr(txt), w)
                if det and not cyc:
                    f=glr.parse(w)
                    if len(f)!=1 or shape(f[0])!=shape(t): st['glr_ne_lr']+=1; print('GLR!=LR',repr(txt),w,len(f))
    st['gr']+=1
    # C14: ws vs LAYOUT rule (GLR), only acyclic
    if not cyc:
        try:
            with contextlib.redirect_stdout(io.StringIO()):
                p_ws=GLRParser(Grammar.from_string(txt)); p_ly=GLRParser(Grammar.from_string(txt+LAY))
        except Exception as e: continue
        for L in range(1,4):
            for w in itertools.product('ab',repeat=L):
                inp=''.join(rng.choice(['',' ','\n ','\t'])+c for c in w)+rng.choice(['',' ','\n'])
                st['layout_cases']+=1
                def run(p):
                    try:
                        f=p.parse(inp); return ('ok',sorted(str(canon(t)) for t in list(f)[:30]))
                    except parglare.SyntaxError as e: return ('err',e.location.start_position)
                    except Exception as e: return ('exc',type(e).__name__)
                a=run(p_ws); b=run(p_ly)
                # prod ids are same since LAYOUT rules appended after
                if a!=b:
                    st['layout_diff']+=1
                    if st['layout_diff']<6: print('WS!=LAYOUT',repr(txt),repr(inp),str(a)[:150],str(b)[:150])
print(st)
