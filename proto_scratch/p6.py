# C05 probe: compare parglare table with canonical LR1 (lower bound) / LALR1 (upper bound), by walking both automata in lockstep
import sys, signal, random, itertools
from ref import *; from lr1 import *
import parglare
from parglare import Grammar, GLRParser, Parser, SLR, LALR
from parglare.tables import create_table, SHIFT, REDUCE, ACCEPT
from parglare.closure import LR_0, LR_1
class TO(Exception): pass
def h(*a): raise TO()
signal.signal(signal.SIGALRM,h)
seed=int(sys.argv[1]); N=int(sys.argv[2])
rng=random.Random(seed)
st=dict(gr=0,hang=0,missing=0,extra=0,other=0, conflict_free_lalr_but_conflict=0)
for gi in range(N):
    g=rand_grammar(rng)
    if not ok(g): continue
    txt=g.text()
    try:
        signal.alarm(3); pg=Grammar.from_string(txt); tbl=create_table(pg, itemset_type=LR_1, prefer_shifts=False, prefer_shifts_over_empty=False); signal.alarm(0)
    except TO: st['hang']+=1; continue
    except Exception as e:
        signal.alarm(0); st['other']+=1; print('BUILD',type(e).__name__,str(e)[:80],repr(txt)); continue
    st['gr']+=1
    pkey={pr.prod_id:(pr.symbol.name, tuple(s.name for s in pr.rhs if s.name!='EMPTY')) for pr in pg.productions}
    lalr,states,trans,acts,core=lalr_from_lr1(g)
    # lockstep walk: pairs (pgstate, lr1state)
    seen=set(); work=[(tbl.states[0],0)]
    bad=False
    while work:
        ps,ls=work.pop()
        if (ps.state_id,ls) in seen: continue
        seen.add((ps.state_id,ls))
        # parglare actions
        pa={}
        for t,al in ps.actions.items():
            tn='$' if t.name=='STOP' else t.name
            for a in al:
                if a.action==SHIFT: pa.setdefault(tn,set()).add(('s',))
                elif a.action==ACCEPT: pa.setdefault(tn,set()).add(('acc',))
                else: pa.setdefault(tn,set()).add(('r',g.prods.index(pkey[a.prod.prod_id])))
        la=acts[ls]; ua=lalr[core(states[ls])]
        for t,v in la.items():
            if not v<=pa.get(t,set()):
                st['missing']+=1; bad=True; print('MISSING action', repr(txt), 'state',ps.state_id,t,v-pa.get(t,set()))
        for t,v in pa.items():
            if not v<=ua.get(t,set()):
                st['extra']+=1; bad=True; print('EXTRA action (outside LALR1)', repr(txt),'state',ps.state_id,t,v-ua.get(t,set()))
        for (s,sym),tgt in trans.items():
            if s!=ls: continue
            if sym.isupper():
                nt=pg.get_nonterminal(sym)
                if nt not in ps.gotos: st['missing']+=1; print('MISSING goto',repr(txt)); continue
                work.append((ps.gotos[nt],tgt))
            else:
                term=pg.get_terminal(sym)
                sh=[a for a in ps.actions.get(term,[]) if a.action==SHIFT]
                if not sh: continue
                work.append((sh[0].state,tgt))
        if bad: break
    lalr_conf=any(len(v)>1 for m in lalr.values() for v in m.values())
    if not lalr_conf and (tbl.sr_conflicts or tbl.rr_conflicts):
        st['conflict_free_lalr_but_conflict']+=1; print('SPURIOUS CONFLICT', repr(txt))
print(st)
