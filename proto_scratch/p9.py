# C10 probe: error positions agree among GLR-LALR, GLR-SLR, and Earley-prefix reference
import sys, random, itertools, signal
from ref import *
import parglare
from parglare import Grammar, GLRParser, Parser, SLR, LALR
class TO(Exception): pass
def h(*a): raise TO()
signal.signal(signal.SIGALRM,h)
def earley_prefix_len(g,w):
    """length of longest prefix of w that is a prefix of some sentence (all NTs productive); also returns whether w in L and expected terminals after that prefix"""
    nl=g.nullable()
    # items: (pi,dot,origin); pi=-1 start
    def rhs(pi): return (g.start,) if pi==-1 else g.prods[pi][1]
    chart=[set() for _ in range(len(w)+1)]
    def close(k):
        st=list(chart[k])
        while st:
            pi,d,o=st.pop()
            r=rhs(pi)
            if d<len(r):
                s=r[d]
                if s.isupper():
                    for qi,_ in g.by[s]:
                        it=(qi,0,k)
                        if it not in chart[k]: chart[k].add(it); st.append(it)
                    if s in nl:
                        it=(pi,d+1,o)
                        if it not in chart[k]: chart[k].add(it); st.append(it)
            else:
                lhs=g.start+"'" if pi==-1 else g.prods[pi][0]
                if pi==-1: continue
                for (pj,dj,oj) in list(chart[o]):
                    rj=rhs(pj)
                    if dj<len(rj) and rj[dj]==lhs:
                        it=(pj,dj+1,oj)
                        if it not in chart[k]: chart[k].add(it); st.append(it)
    chart[0].add((-1,0,0)); close(0)
    k=0
    while k<len(w):
        nxt=set()
        for pi,d,o in chart[k]:
            r=rhs(pi)
            if d<len(r) and r[d]==w[k]: nxt.add((pi,d+1,o))
        if not nxt: break
        chart[k+1]=nxt; close(k+1); k+=1
    exp=set()
    for pi,d,o in chart[k]:
        r=rhs(pi)
        if d<len(r) and not r[d].isupper(): exp.add(r[d])
    acc=(k==len(w)) and ((-1,1,0) in chart[k])
    if (-1,1,0) in chart[k]: exp.add('STOP')
    return k,acc,exp
seed=int(sys.argv[1]); N=int(sys.argv[2])
rng=random.Random(seed)
st=dict(gr=0,cases=0,posbad=0,expbad=0,exc=0,accbad=0)
for gi in range(N):
    g=rand_grammar(rng)
    if not ok(g): continue
    txt=g.text()
    try:
        signal.alarm(3); pg=Grammar.from_string(txt); ps={'glr-lalr':GLRParser(pg),'glr-slr':GLRParser(pg,tables=SLR)}; signal.alarm(0)
    except Exception as e: signal.alarm(0); continue
    st['gr']+=1
    for L in range(1,5):
        for w in itertools.product('ab',repeat=L):
            w=''.join(w)
            k,acc,exp=earley_prefix_len(g,w)
            for name,p in ps.items():
                st['cases']+=1
                try:
                    signal.alarm(5); p.parse(w); signal.alarm(0)
                    if not acc: st['accbad']+=1; print('ACC',name,repr(txt),w)
                except parglare.SyntaxError as e:
                    signal.alarm(0)
                    if acc: st['accbad']+=1; print('REJ',name,repr(txt),w); continue
                    pos=e.location.start_position
                    if pos!=k:
                        st['posbad']+=1
                        if st['posbad']<15: print('POS',name,repr(txt),repr(w),'got',pos,'want',k)
                    got={s.name for s in e.symbols_expected}
                    if got-{'STOP'}!=exp-{'STOP'}:
                        st['expbad']+=1
                        if st['expbad']<15: print('EXP',name,repr(txt),repr(w),'got',sorted(got),'want',sorted(exp))
                    try: str(e)
                    except Exception as ex: st['exc']+=1; print('STR',type(ex).__name__)
                except TO: print('HANG',name,repr(txt),w)
                except Exception as ex:
                    signal.alarm(0); st['exc']+=1; print('EXC',name,type(ex).__name__,ex,repr(txt),w)
print(st)
