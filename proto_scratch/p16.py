# C17 probe: consume_input=False, GLR: forest trees == union over sentence prefixes; LR: result derives a sentence prefix
import sys, random, itertools, signal
from ref import *
import parglare
from parglare import Grammar, GLRParser, Parser
class TO(Exception): pass
def h(*a): raise TO()
signal.signal(signal.SIGALRM,h)
seed=int(sys.argv[1]); N=int(sys.argv[2])
rng=random.Random(seed)
st=dict(gr=0,cases=0,missing=0,extra=0,dup=0,acc=0,lrbad=0,lr=0)
for gi in range(N):
    g=rand_grammar(rng)
    if not ok(g) or g.cyclic(): continue
    txt=g.text()
    try:
        signal.alarm(3); pg=Grammar.from_string(txt); glr=GLRParser(pg, consume_input=False); signal.alarm(0)
    except Exception as e: signal.alarm(0); continue
    st['gr']+=1
    pmap={pr.prod_id:(pr.symbol.name, tuple(s.name for s in pr.rhs if s.name!="EMPTY")) for pr in pg.productions[1:]}
    def conv(node):
        if node.is_term(): return ('t',node.value,node.start_position)
        return (pmap[node.production.prod_id], tuple(conv(c) for c in node.children))
    def rconv(t):
        if t[0]=='t': return t
        return (g.prods[t[0]], tuple(rconv(c) for c in t[1]))
    for L in range(0,5):
        for w in itertools.product('ab',repeat=L):
            w=''.join(w); st['cases']+=1
            ref=[]
            for k in range(len(w)+1): ref+= [rconv(t) for t in trees(g,w[:k])]
            try:
                signal.alarm(5); f=glr.parse(w); got=[conv(t) for t in f]; signal.alarm(0)
            except parglare.SyntaxError:
                signal.alarm(0)
                if ref: st['acc']+=1; print('REJ', repr(txt), w)
                continue
            except Exception as e:
                signal.alarm(0); print('EXC', type(e).__name__, repr(txt), w); continue
            if not ref: st['acc']+=1; print('ACC', repr(txt), w); continue
            if len(set(got))!=len(got): st['dup']+=1
            if set(ref)-set(got):
                st['missing']+=1
                if st['missing']<8: print('MISSING', repr(txt), w, len(set(got)), len(ref))
            if set(got)-set(ref):
                st['extra']+=1
                if st['extra']<8: print('EXTRA', repr(txt), w)
print(st)
