import signal, io, contextlib, itertools
import parglare
from parglare import Grammar, Parser, GLRParser, SLR, LALR
class TO(Exception): pass
def h(*a): raise TO()
signal.signal(signal.SIGALRM,h)
txt='S: "b" A | S A | "b";\nA: S S | B | EMPTY;\nB: A "a";'
for ps,pse,tb,rec in itertools.product([False,True],[False,True],[LALR,SLR],[False,True]):
    kw=dict(prefer_shifts=ps,prefer_shifts_over_empty=pse,tables=tb,error_recovery=rec)
    p=None
    with contextlib.redirect_stdout(io.StringIO()):
        try: p=Parser(Grammar.from_string(txt), **kw)
        except Exception as e: err=type(e).__name__
    if p is None: print(kw,'BUILD',err); continue
    steps=[0]; seen={}
    o=p._call_reduce_action
    def cra(ctx,sub,o=o,p=p):
        steps[0]+=1
        key=(tuple(n.state.state_id for n in p.parse_stack), ctx.position, ctx.production.prod_id)
        seen[key]=seen.get(key,0)+1
        return o(ctx,sub)
    p._call_reduce_action=cra
    try:
        signal.alarm(2); r=p.parse('bb'); signal.alarm(0); print(kw,'OK',r)
    except TO: print(kw,'HANG steps',steps[0],'max repeat of a configuration',max(seen.values()), 'distinct', len(seen))
    except Exception as e: signal.alarm(0); print(kw,type(e).__name__)
