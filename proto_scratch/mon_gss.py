"""Prototype of M-gss: wraps GLRParser internals from the harness; closure invariant + dup attribution."""
import parglare.glr as G
from parglare.parser import REDUCE, SHIFT
class GssMonitor:
    def __init__(self):
        self.reset()
    def reset(self):
        self.subfrontier_heads=[]   # list of heads seen by _actor for current frontier
        self.reduce_events=[]       # (head id, lookahead, prod_id, path link ids, limited?)
        self.closure_missing=[]     # (head.id, prod_id, path ids, cyclic)
        self.counters=dict(actor=0,reduce=0,limited=0,merge=0,newlink_existing=0,shift=0,closure_checks=0,selflinks=0)
        self._cur_limited=None
    def install(self):
        mon=self
        P=G.GLRParser
        o_actor=P._actor; o_red=P._do_reductions; o__reduce=P._reduce; o_shifts=P._do_shifts; o_parse=P.parse
        def actor(self,head):
            mon.counters['actor']+=1
            mon.subfrontier_heads.append(head)
            return o_actor(self,head)
        def do_reductions(self,head,production,update_parent=None):
            prev=mon._cur_limited
            mon._cur_limited=update_parent
            if update_parent is not None: mon.counters['limited']+=1
            try: return o_red(self,head,production,update_parent)
            finally: mon._cur_limited=prev
        def _reduce(self,head,root_head,production,node_nonterm,start_position,end_position):
            mon.counters['reduce']+=1
            path=tuple(id(c) for c in node_nonterm.children)
            mon.reduce_events.append((head.id, head.token_ahead.symbol.name, production.prod_id, path, mon._cur_limited is not None, id(node_nonterm)))
            r=o__reduce(self,head,root_head,production,node_nonterm,start_position,end_position)
            # new heads created by reduce get processed by _actor later (they are appended to _for_actor)
            return r
        def do_shifts(self):
            if not self._in_error_reporting:
                mon.check_closure(self)
            mon.subfrontier_heads=[]
            mon.counters['shift']+=1
            return o_shifts(self)
        def parse(self,*a,**k):
            mon.reset()
            return o_parse(self,*a,**k)
        P._actor=actor; P._do_reductions=do_reductions; P._reduce=_reduce; P._do_shifts=do_shifts; P.parse=parse
        self._restore=lambda: (setattr(P,'_actor',o_actor),setattr(P,'_do_reductions',o_red),setattr(P,'_reduce',o__reduce),setattr(P,'_do_shifts',o_shifts),setattr(P,'parse',o_parse))
    def check_closure(self, parser):
        self.counters['closure_checks']+=1
        # group heads by lookahead symbol; heads unique by (id, lookahead)
        seen={}
        for h in self.subfrontier_heads:
            seen[(h.id, h.token_ahead.symbol.name)]=h
        by_la={}
        for (hid,la),h in seen.items(): by_la.setdefault(la,{})[h.state.state_id]=h
        for la,heads in by_la.items():
            for h in heads.values():
                for action in h.state.actions.get(h.token_ahead.symbol, []):
                    if action.action!=REDUCE: continue
                    prod=action.prod; n=len(prod.rhs)
                    if n==0:
                        paths=[((),h,[h])]
                    else:
                        paths=[]
                        stack=[(h,(),[h])]
                        while stack:
                            node,links,nodes=stack.pop()
                            if len(links)==n:
                                paths.append((links,node,nodes)); continue
                            for par in node.parents.values():
                                stack.append((par.root, (par,)+links, nodes+[par.root]))
                    for links,root,nodes in paths:
                        tgt_state=root.state.gotos[prod.symbol]
                        th=heads.get(tgt_state.state_id)
                        ok=False
                        if th is not None:
                            par=th.parents.get(root.id)
                            if par is not None:
                                for poss in par.possibilities:
                                    if poss.is_nonterm() and poss.production is prod and len(poss.children)==len(links) and all(a is b for a,b in zip(poss.children,links)):
                                        ok=True; break
                        if not ok:
                            ids=[id(x) for x in nodes]
                            cyclic=len(set(ids))<len(ids)
                            self.closure_missing.append((h.id, prod.prod_id, tuple(str(l) for l in links), cyclic))
    def dup_report(self, forest_root):
        """walk SPPF; for each Parent find identical alternatives; attribute via reduce events"""
        ev_by_node={e[5]:e for e in self.reduce_events}
        dups=[]
        seen=set(); st=[forest_root]
        while st:
            par=st.pop()
            if id(par) in seen: continue
            seen.add(id(par))
            keys={}
            for poss in par.possibilities:
                if poss.is_nonterm():
                    k=(poss.production.prod_id, tuple(id(c) for c in poss.children))
                    keys.setdefault(k,[]).append(poss)
                    for c in poss.children: st.append(c)
            for k,ps in keys.items():
                if len(ps)>1:
                    evs=[ev_by_node.get(id(p)) for p in ps]
                    attributed=all(e is not None for e in evs) and (sum(1 for e in evs if e[4])>=1 or k[1]==())
                    dups.append((k[0], len(ps), attributed, [ (e[4] if e else None) for e in evs]))
        return dups
