import parglare, traceback
from parglare import Grammar, Parser, GLRParser
def tryg(txt, inputs, cls=Parser, **kw):
    print('---', repr(txt))
    try:
        g=Grammar.from_string(txt, **{k:v for k,v in kw.items() if k in ('ignore_case',)})
        p=cls(g, **{k:v for k,v in kw.items() if k not in ('ignore_case',)})
    except Exception as e:
        print('   BUILD', type(e).__name__, str(e)[:150]); return
    for i in inputs:
        try: print('   ', repr(i), '->', p.parse(i))
        except Exception as e: print('   ', repr(i), type(e).__name__, str(e).splitlines()[0][:100])
# C19
tryg('S: ID "." ID;\nterminals ID: /[a-z]+/;', ['a.b'])
tryg('S: ID dot ID;\nterminals ID: /[a-z]+/; dot: ".";', ['a.b'])
tryg('S: "c++" | ID;\nterminals ID: /[a-z]+/; KEYWORD: /[a-z+]+/;', ['c++','ccc','cc'])
tryg('S: "a.b";', ['a.b'])
tryg('S: "a|b";', ['a|b'])
tryg(r'S: "a\"b";', ['a"b'])
tryg(r"S: 'a\'b';", ["a'b"])
tryg(r'S: "a\\b";', ['a\\b'])
tryg(r'S: "a\nb";', ['a\nb'], ws='')
tryg(r'S: "a\tb";', ['a\tb'], ws='')
tryg('S: "ID" ID;\nterminals ID: /[a-z]+/;', ['ID x'])
tryg('S: "S";', ['S'])
tryg('S: "EMPTY";', ['EMPTY'])
tryg('S: "for" ID;\nterminals ID: /\\w+/; KEYWORD: /\\w+/;', ['for x','forx', 'for for'])
tryg('S: "FOR" ID;\nterminals ID: /\\w+/; KEYWORD: /\\w+/;', ['for x','forx', 'FOR x'], ignore_case=True)
tryg('S: "a" "a b";', ['a a b'])
tryg("S: 'x' \"x\";", ['x x'])
tryg("S: '*' '+' '?' '(' ')' '[' ']' '{' '}' ;", ['*+?()[]{}'])
