# validate classifier claims for KF-C02-1 and KF-C03-1
import sys, random, itertools, signal
from ref import *
import parglare
from parglare import Grammar, GLRParser
from mon_gss import GssMonitor
mon=GssMonitor(); mon.install()
class TO(Exception): pass
def h(*a): raise TO()
signal.signal(signal.SIGALRM,h)
seed=int(sys.argv[1]); N=int(sys.argv[2])
rng=random.Random(seed)
st=dict(gr=0,cases=0,missing=0,missing_attr=0,missing_unattr=0,closure_viol_no_forest_loss=0,dup=0,dup_attr=0,dup_unattr=0,noncyc_closure=0, epsfree_missing=0, epsfree_dup=0)
for gi in range(N):
    g=rand_grammar(rng)
    if not ok(g) or g.cyclic(): continue
    txt=g.text()
    try:
        signal.alarm(3); pg=Grammar.from_string(txt); p=GLRParser(pg); signal.alarm(0)
    except TO: continue
    except Exception as e: signal.alarm(0); continue
    st['gr']+=1
    epsfree=not g.nullable()
    pmap={pr.prod_id:(pr.symbol.name, tuple(s.name for s in pr.rhs if s.name!="EMPTY")) for pr in pg.productions[1:]}
    def conv(node):
        if node.is_term(): return ('t',node.value,node.start_position)
        return (pmap[node.production.prod_id], tuple(conv(c) for c in node.children))
    def rconv(t):
        if t[0]=='t': return t
        return (g.prods[t[0]], tuple(rconv(c) for c in t[1]))
    for L in range(1,6):
        for w in itertools.product('ab',repeat=L):
            w=''.join(w)
            ref=[rconv(t) for t in trees(g,w)]
            if not ref: continue
            st['cases']+=1
            try:
                signal.alarm(10); f=p.parse(w); n=len(f); got=[conv(t) for t in f] if n<3000 else None; signal.alarm(0)
            except TO: continue
            except Exception as e: signal.alarm(0); print('EXC',type(e).__name__,repr(txt),w); continue
            if got is None: continue
            cm=mon.closure_missing
            if any(not c[3] for c in cm):
                st['noncyc_closure']+=1
                if st['noncyc_closure']<5: print('NONCYCLIC closure violation', repr(txt), w, [c for c in cm if not c[3]][:2])
            if set(ref)-set(got):
                st['missing']+=1
                if epsfree: st['epsfree_missing']+=1
                if cm and all(c[3] for c in cm): st['missing_attr']+=1
                else:
                    st['missing_unattr']+=1
                    if st['missing_unattr']<6: print('UNATTRIBUTED missing', repr(txt), w, cm[:3])
            elif cm:
                st['closure_viol_no_forest_loss']+=1
            if len(got)!=len(set(got)):
                st['dup']+=1
                if epsfree: st['epsfree_dup']+=1
                d=mon.dup_report(f.result)
                if d and all(x[2] for x in d): st['dup_attr']+=1
                else:
                    st['dup_unattr']+=1
                    if st['dup_unattr']<6: print('UNATTRIBUTED dup', repr(txt), w, d[:3])
print(st)
