from ref import *; from lr1 import *
from parglare import Grammar
from parglare.tables import create_table
from parglare.closure import LR_1
prods=[('S',('a','A')),('S',('a','B')),('A',('S',)),('A',('a',)),('A',('B','b')),('B',('a','S'))]
g=G(prods,'S')
pg=Grammar.from_string(g.text())
tbl=create_table(pg, itemset_type=LR_1, prefer_shifts=False, prefer_shifts_over_empty=False)
for s in tbl.states:
    print(s.state_id, s.symbol)
    for i in s.items: print('   ', i.production.prod_id, i.production.symbol, '->', [x.name for x in i.production.rhs], 'dot', i.position, sorted(t.name for t in i.follow))
    print('   actions', {t.name:[str(a) for a in al] for t,al in s.actions.items()})
states,trans,acts=actions_lr1(g)
print('LR1 states', len(states))
for i,s in enumerate(states):
    print(i, sorted(s))
