# C13 probe: sugared vs hand-expanded plain BNF, GLR, compare result multisets
import sys, random, itertools, io, contextlib
import parglare
from parglare import Grammar, GLRParser, Parser
seed=int(sys.argv[1]); N=int(sys.argv[2])
rng=random.Random(seed)
# element generators: returns (sugar_text, expansion_fn(ctx)->symbol_name) where ctx collects rules+actions
class Ctx:
    def __init__(self): self.rules=[]; self.actions={}; self.n=0
    def fresh(self,p): self.n+=1; return '%s%d'%(p,self.n)
def base(rng):
    t=rng.choice(['a','b'])
    return ('"%s"'%t, lambda c,t=t: '"%s"'%t)
def group(rng):
    k=rng.random()
    x=base(rng); y=base(rng)
    if k<0.5:
        return ('(%s %s)'%(x[0],y[0]), lambda c: _seq(c,[x[1](c),y[1](c)]))
    return ('(%s | %s %s)'%(x[0],y[0],x[0]), lambda c: _alt(c,[[x[1](c)],[y[1](c),x[1](c)]]))
def _seq(c,syms):
    n=c.fresh('G'); c.rules.append('%s: %s;'%(n,' '.join(syms))); return n
def _alt(c,alts):
    n=c.fresh('G'); c.rules.append('%s: %s;'%(n,' | '.join(' '.join(a) for a in alts))); return n
def elem(rng):
    b=base(rng) if rng.random()<0.6 else group(rng)
    op=rng.choice(['','?','*','+','*[c]','+[c]'])
    st=b[0]+op.replace('[c]','[comma]')
    def exp(c,b=b,op=op):
        s=b[1](c)
        if op=='': return s
        if op=='?':
            n=c.fresh('O'); c.rules.append('%s: %s | EMPTY;'%(n,s)); c.actions[n]=[lambda _,n: n[0], lambda _,n: None]; return n
        sep = ' comma' if 'c' in op else ''
        one=c.fresh('P'); c.rules.append('%s: %s%s %s | %s;'%(one,one,sep,s,s))
        c.actions[one]=[(lambda _,n: n[0]+[n[-1]]), (lambda _,n: [n[0]])]
        if op.startswith('+'): return one
        z=c.fresh('Z'); c.rules.append('%s: %s | EMPTY;'%(z,one)); c.actions[z]=[lambda _,n: n[0], lambda _,n: []]; return z
    return st,exp
def freeze(x):
    if isinstance(x,list): return tuple(freeze(i) for i in x)
    return x
st=dict(gr=0,cases=0,lang_diff=0,res_diff=0,count_diff=0,build=0)
for gi in range(N):
    els=[elem(rng) for _ in range(rng.randint(1,3))]
    sug='S: %s;\nterminals comma: ",";'%' '.join(e[0] for e in els)
    c=Ctx(); syms=[e[1](c) for e in els]
    pl='S: %s;\n%s\nterminals comma: ",";'%(' '.join(syms),'\n'.join(c.rules))
    if 'comma' not in sug.split('terminals')[0]:
        sug=sug.split('\nterminals')[0]; pl=pl.split('\nterminals')[0]
    try:
        with contextlib.redirect_stdout(io.StringIO()):
            ps=GLRParser(Grammar.from_string(sug)); pp=GLRParser(Grammar.from_string(pl), actions=c.actions)
    except Exception as e:
        st['build']+=1; print('BUILD',type(e).__name__,str(e)[:80],repr(sug),repr(pl)); continue
    st['gr']+=1
    alpha=['a','b',','] if 'comma' in sug else ['a','b']
    for L in range(0,6):
        for w in itertools.product(alpha,repeat=L):
            w=' '.join(w); st['cases']+=1
            def run(p):
                try:
                    f=p.parse(w)
                    n=len(f)
                    return ('ok', n, sorted(repr(freeze(p.call_actions(t))) for t in list(f)[:50]))
                except parglare.SyntaxError: return ('rej',)
                except IndexError: return ('rej',)
                except Exception as e: return ('exc',type(e).__name__)
            a=run(ps); b=run(pp)
            if a[0]!=b[0]:
                st['lang_diff']+=1
                if st['lang_diff']<6: print('LANG',repr(sug),repr(w),a[:2],b[:2])
            elif a[0]=='ok':
                if set(a[2])!=set(b[2]):
                    st['res_diff']+=1
                    if st['res_diff']<6: print('RES',repr(sug),repr(w),a[2][:3],b[2][:3])
                elif a[1]!=b[1]:
                    st['count_diff']+=1
print(st)
