#!/usr/bin/env python3
"""Prints the DESIGN.md section-11 table from seeded/*/meta.json."""
import glob, json, os
root = os.path.dirname(os.path.dirname(os.path.abspath(__file__)))
print("| seeded change | what it does | caught by |")
print("|---|---|---|")
for d in sorted(glob.glob(root + "/seeded/*")):
    m = json.load(open(d + "/meta.json"))
    s = " ".join(str(m.get("summary", "")).split()).replace("|", "/")
    if len(s) > 240:
        s = s[:240] + "..."
    print("| %s | %s | %s |" % (os.path.basename(d), s, " ".join(str(m.get("caught_by", "")).split()).replace("|", "/")))
