#!/usr/bin/env python3
"""tools/store_seeded.py <batchdir> <suffix> <ids...>

Confirms sub-agent changes (batchdir/out/<id>/{patch.diff,demo.py,meta.json}) in
fresh scratch worktrees of /repo (never /repo itself) and stores the confirmed
ones as seeded/<id>-<suffix>/.  Phase A (test-suite + demonstration, parallel),
phase B (our check against the change, sequential)."""
import json, os, re, subprocess, sys, shutil
from concurrent.futures import ThreadPoolExecutor

ROOT = os.path.dirname(os.path.dirname(os.path.abspath(__file__)))
batch, suffix, ids = sys.argv[1], sys.argv[2], sys.argv[3:]
PY = "/venv/bin/python"


def sh(cmd, cwd=None, timeout=1800, env=None):
    p = subprocess.run(cmd, shell=True, cwd=cwd, capture_output=True, text=True, timeout=timeout, env=env)
    return p.returncode, p.stdout + p.stderr


def phase_a(id_):
    src = "%s/out/%s" % (batch, id_)
    s = open(src + "/patch.diff").read()
    parts = re.split(r"(?m)^(?=diff --git )", s)
    patch = "".join(p for p in parts if p.startswith("diff --git a/parglare/"))
    open(src + "/p.diff", "w").write(patch)
    wt = "/tmp/sv/%s-%s" % (id_, suffix)
    sh("git -C /repo worktree remove --force %s" % wt)
    rc, o = sh("git -C /repo worktree add -q %s HEAD" % wt)
    if rc:
        return id_, {"error": "worktree: " + o}
    try:
        rc, o = sh("git apply %s/p.diff" % src, cwd=wt)
        if rc:
            return id_, {"error": "apply: " + o}
        rc, o = sh("%s -m pytest -q -p no:cacheprovider --timeout=900 tests 2>&1 | tail -3" % PY, cwd=wt)
        suite = [l for l in o.splitlines() if "passed" in l or "failed" in l][-1:]
        suite = re.sub(r" in [0-9.]+s.*", "", suite[0]).strip("= ") if suite else o[-200:]
        sh("git clean -fdXq", cwd=wt)
        rc1, o1 = sh("%s %s/demo.py" % (PY, src), cwd=wt, timeout=900)
        sh("git checkout -- . && git clean -fdXq", cwd=wt)
        rc0, o0 = sh("%s %s/demo.py" % (PY, src), cwd=wt, timeout=900)
        return id_, {"suite": suite, "demo_with": rc1, "demo_without": rc0, "demo_out": o1[-300:]}
    finally:
        sh("git -C /repo worktree remove --force %s" % wt)


with ThreadPoolExecutor(6) as ex:
    res = dict(ex.map(phase_a, ids))
for id_ in ids:
    print(id_, json.dumps({k: v for k, v in res[id_].items() if k != "demo_out"}), flush=True)

for id_ in ids:
    r = res[id_]
    if r.get("error") or not r["suite"].startswith("2 failed, 264 passed") or r["demo_with"] != 1 or r["demo_without"] != 0:
        print(id_, "NOT CONFIRMED", r)
        continue
    src = "%s/out/%s" % (batch, id_)
    rc, o = sh("./tools/trymut2.sh %s/p.diff %s" % (src, id_), cwd=ROOT, timeout=3600)
    line = [l for l in o.splitlines() if "violation [" in l][:1]
    caught = (" rc=1 " in o) and bool(line)
    print(id_, "check:", o.strip()[:300].replace("\n", " | "), flush=True)
    if not caught:
        print(id_, "NOT CAUGHT")
        continue
    dst = "%s/seeded/%s-%s" % (ROOT, id_, suffix)
    os.makedirs(dst, exist_ok=True)
    shutil.copy(src + "/p.diff", dst + "/patch.diff")
    shutil.copy(src + "/demo.py", dst + "/demo.py")
    try:
        meta = json.load(open(src + "/meta.json"))
    except Exception:
        meta = {"property": id_}
    meta["confirmed_by_harness_author"] = {
        "how": "fresh scratch worktree of /repo: `git apply patch.diff`; `/venv/bin/python -m pytest -q -p no:cacheprovider --timeout=900 tests`; `/venv/bin/python demo.py`; `git checkout -- .`; demo again",
        "suite_with_change": r["suite"],
        "demo_exit_with_change": r["demo_with"],
        "demo_exit_without_change": r["demo_without"],
    }
    m = re.search(r"violation \[([^\]]+)\][^:]*: (.*)", line[0])
    meta["caught_by"] = "%s (%s: %s)" % (id_, m.group(1), m.group(2)[:160]) if m else id_
    meta["checked_with"] = "tools/trymut2.sh seeded/%s-%s/patch.diff %s  (scratch worktree; equivalent to applying the patch to /repo, running ./check %s and undoing it): exit 1 with VIOLATION" % (id_, suffix, id_, id_)
    json.dump(meta, open(dst + "/meta.json", "w"), indent=1)
    print(id_, "STORED", dst)
