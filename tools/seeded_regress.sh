#!/bin/bash
# tools/seeded_regress.sh [ids...]  - applies every seeded change in a scratch worktree of /repo (never /repo itself),
# runs the check(s) named in its meta ("property"), expects exit 1; removes the worktree afterwards.
cd "$(dirname "$0")/.."
wt=/tmp/pgv-seeded-wt
git -C /repo worktree remove --force $wt 2>/dev/null
git -C /repo worktree add -q $wt HEAD || exit 9
ids="$@"; [ -z "$ids" ] && ids=$(ls seeded)
miss=0
for s in $ids; do
  prop=${s%%-*}
  git -C $wt checkout -q -- . && git -C $wt clean -fdq
  if ! git -C $wt apply "$PWD/seeded/$s/patch.diff"; then echo "$s: patch does not apply"; miss=$((miss+1)); continue; fi
  # a seeded change may name the tier that catches it (meta.json "tier"); default: quick
  tier=$(python3 -c "import json,sys; print(json.load(open(sys.argv[1])).get('tier',''))" "$PWD/seeded/$s/meta.json" 2>/dev/null)
  o=$(PGV_REPO=$wt PGV_OUT_DIR=/tmp/pgv-seeded-out ./check $prop --tier ${tier:-${TIER:-quick}} 2>&1); rc=$?
  sig=$(echo "$o" | grep -E "violation \[" | head -2 | cut -c1-160 | tr '\n' ' ')
  echo "$s rc=$rc $sig"
  [ $rc -ne 1 ] && miss=$((miss+1))
done
git -C /repo worktree remove --force $wt
rm -rf /tmp/pgv-seeded-out
echo "seeded changes not caught: $miss"
[ $miss -eq 0 ]
