#!/bin/bash
# tools/sweep.sh <tier> <seed>...   - every check for every seed; prints failures only (plus a summary line per seed)
cd "$(dirname "$0")/.."
tier=$1; shift
for seed in "$@"; do
  bad=0
  for i in $(seq -w 1 20); do
    id=C$i
    out=$(VERIF_SEED=$seed ./check $id --tier $tier 2>&1); rc=$?
    if [ $rc -ne 0 ]; then bad=$((bad+1)); echo "seed=$seed $id rc=$rc"; echo "$out" | grep -E "VIOLATION|INCONCLUSIVE|violation \[" | cut -c1-500 | head -8; fi
  done
  echo "seed=$seed done: $bad checks not clean"
done
