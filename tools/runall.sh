#!/bin/bash
# tools/runall.sh [tier] [seed]   - runs every check once, prints one line per check
cd "$(dirname "$0")/.."
tier=${1:-quick}; seed=${2:-0}
for i in $(seq -w 1 20); do
  id=C$i
  out=$(VERIF_SEED=$seed ./check $id --tier $tier 2>&1); rc=$?
  echo "$id rc=$rc $(echo "$out" | grep -E "tier=" | cut -c1-110)"
  if [ $rc -ne 0 ]; then echo "$out" | grep -E "VIOLATION|INCONCLUSIVE|violation \[" | cut -c1-400 | head -6; fi
done
