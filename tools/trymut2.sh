#!/bin/bash
# tools/trymut2.sh <patch> <check ids...> : apply a patch in a private scratch worktree and run checks (never touches /repo)
cd "$(dirname "$0")/.."
patch=$1; shift
wt=/tmp/pgv-try-$$; out=/tmp/pgv-try-out-$$
git -C /repo worktree add -q $wt HEAD || exit 9
git -C $wt apply $patch || { echo "patch does not apply"; git -C /repo worktree remove --force $wt; exit 8; }
for id in "$@"; do
  o=$(PGV_REPO=$wt PGV_OUT_DIR=$out ./check $id --tier ${TIER:-quick} 2>&1); rc=$?
  echo "$id rc=$rc $(echo "$o" | grep -E "tier=" | cut -c1-100)"
  echo "$o" | grep -E "violation \[|INCONCLUSIVE" | cut -c1-300 | head -4
done
git -C /repo worktree remove --force $wt; rm -rf $out
