#!/usr/bin/env python3
"""Writes /verif/MANIFEST.json from the table below (keeps it schema-valid)."""
import json
import os

ROOT = os.path.dirname(os.path.dirname(os.path.abspath(__file__)))

CHECKS = {
    "C01": dict(
        technique="runtime monitoring: client-boundary history of GLRParser.parse vs an independent character-level chart oracle; SPPF validity walk; GSS monitor counters + logical reduce budget; lock-step walk of every GLR table against the canonical LR(1) automaton of the reference grammar (missing action = rejected sentence); random long sentences (12-30 tokens); neutral spellings of default options",
        text="Exploration: hundreds of thousands of (grammar, table kind, input) executions per run of the real GLR parser, each judged by an independent "
        "derivation chart (sentence <=> forest, non-sentence <=> SyntaxError), every packed alternative and up to 60 trees per forest checked to be derivations "
        "whose leaves read the input. Held on what was explored, not a proof.",
        note="trusted: pgverif/cfg.py Chart as specification of the language at character level; equal priorities for overlapping vocabularies; wall clock timeouts are inconclusive, divergence decided by reduce budget",
        ref="5/C01",
    ),
    "C02": dict(
        technique="runtime monitoring: forest packed alternatives vs reference chart; GSS closure invariant evaluated at the quiescent point before every shift (monitor installed on the real driver)",
        text="Exploration over acyclic grammars weighted to nullable / hidden-recursive / right-nulled shapes x all sentences up to the bound: every packed alternative of the "
        "complete SPPF must be in the forest, tree sets compared when small. Losses are reported unless the closure monitor attributes them to the recorded mechanism KF-C02-1.",
        note="trusted: reference chart; classifier KF-C02-1 (all missing reductions on cyclic GSS paths, grammar has a nullable symbol)",
        ref="5/C02",
    ),
    "C03": dict(
        technique="runtime monitoring: forest API history (len/solutions/ambiguities/index/iteration) vs independent recounts over the live SPPF; reduce-event log for duplicate attribution",
        text="Exploration: every returned forest is recounted independently (sum/product DP by link identity, exact distinct count by enumeration up to 1500 trees, reference "
        "derivation count beyond), identical alternatives searched in every link, indices len/len+7/10**30 must raise IndexError, lazy/non-lazy/repeated/first-tree/iteration agree, "
        "LoopError only on inputs with infinitely many derivations.",
        note="trusted: canonical tree form (productions + leaf spans); classifier KF-C03-1 (duplicates mapped to repeated reduce events, one limited or epsilon)",
        ref="5/C03",
    ),
    "C05": dict(
        technique="runtime monitoring: create_table under a state-construction counter with a reference-derived budget (bounded progress); lock-step walk of the returned table against an independent canonical LR(1)/LALR(1)/SLR(1) construction",
        text="Exploration over corpus, systematic tiny grammars and random grammars x {LALR,SLR} x {main,LAYOUT} start: termination by logical budget, LR1 <= table <= LALR1/SLR1 "
        "action sandwich in every reachable state pair, gotos, conflict bookkeeping, LALR(1) grammars conflict free, augmented production restored.",
        note="trusted: pgverif/cfg.py LR1; budget 50*(N_LR1+1)*(|symbols|+1)",
        ref="5/C05",
    ),
}

CHECKS.update({
    "C04": dict(
        technique="runtime monitoring: LR driver under a step/configuration monitor; client-boundary history of Parser.parse vs reference chart; (state, lookahead) cell coverage measured by the scanner hook",
        text="Exploration over productive grammars x 8 option combinations x all inputs up to the bound with layout: accepted => sentence and the tree is a derivation reading the input; "
        "on deterministic tables (all cells single, strategies off) every input has <= 1 derivation, every sentence is accepted and GLR returns exactly the LR tree.",
        note="trusted: reference chart; LR divergence under resolved conflicts is KF-C11-1 and judged by C11/C10",
        ref="5/C04",
    ),
    "C06": dict(
        technique="runtime monitoring: parse results vs an independent precedence-climbing parser; sys.monitoring line coverage of create_table's conflict resolution branches",
        text="Exploration over random operator tables (1-6 operators, 1-6 levels, left/right, shuffled alternatives, parentheses) x random and corrupted expressions: LR with "
        "strategies off constructs and equals precedence climbing, GLR gives that single tree, the stratified LALR(1) grammar is unchanged by added priorities/associativities.",
        note="trusted: climb() as the conventional parse; well_formed() as the expression language",
        ref="5/C06",
    ),
    "C07": dict(
        technique="runtime monitoring: every call of the real scanner (Parser._next_tokens) is recorded by a hook and replayed against the documented rule applied naively with independent matchers",
        text="Exploration: millions of token-choice events over grammars mixing string / regex / keyword / custom recognizers with priorities, prefer, finish/nofinish, several expected "
        "sets, lexical_disambiguation on/off, ignore_case, custom_token_recognition pass-through; each event's result must equal the documented winner / tie set / nothing.",
        note="events with an explicit finish/nofinish mark on a matching terminal are judged for admissibility only (user override)",
        ref="5/C07",
    ),
    "C08": dict(
        technique="runtime monitoring: invariant walk over every node of every produced tree; positions seen by instrumented actions and obj results compared with node positions",
        text="Exploration over grammars with empty alternatives x sentences with injected ws / comment layout, LR and GLR, ws and LAYOUT-rule layout, ignore_case: integer in-bounds positions, "
        "leaf value == input slice, ordered disjoint siblings, child within parent, lossless leaves, action/obj positions == node positions.",
        note="KF-C08-2 attributed by gap canonicalisation (GLR, layout, empty node, structural failures only)",
        ref="5/C08",
    ),
    "C09": dict(
        technique="runtime monitoring: instrumented actions record the call tree on three evaluation routes; compared with each other and with an independent evaluation of the reference derivation tree",
        text="Exploration over grammars with random action tables (none / callable / per-alternative list), '=' and '?=' named matches, terminal actions, default obj; on-the-fly == "
        "call_actions(tree) == GLR call_actions, and == the specification when the input has one derivation; built-in + * ? separator actions vs documented flat lists.",
        note="trusted: 30-line evaluator over the reference chart tree",
        ref="5/C09",
    ),
    "C10": dict(
        technique="runtime monitoring: exception type and attributes at the client boundary vs a scannerless Earley recogniser; GSS closure monitor re-run for attribution",
        text="Exploration over all non-sentences up to the bound (empty string, trailing layout, multi-line, list inputs): SyntaxError only, position == farthest viable position, "
        "line/column recomputed, 'end of file' iff at end, str(error) renders, GLR symbols_expected == Earley expected set; LR deterministic tables judged fully, resolved tables by exception type.",
        note="STOP excluded from symbols_expected comparison; non-overlapping vocabularies",
        ref="5/C10",
    ),
    "C11": dict(
        technique="runtime monitoring: logical progress monitors (LR configuration repetition, reductions-without-shift bound, recovery stall, GLR reduce/recovery budgets) + span and coverage checks on parser.errors; GLR recovery monitor events (recovery over several heads / partial kill / second error before any shift) counted and used to select inputs whose neighbourhood is explored",
        text="Exploration over corrupted sentences and arbitrary strings with junk, default / skipping / injecting strategies, LR and GLR: termination by logical budgets, "
        "in-bounds ordered disjoint spans, trees are derivations over input tokens, LR character coverage exactly once, accepted inputs unchanged and error free.",
        note="KF-C11-1 attributed by the LR monitor signature on non-deterministic tables of nullable/cyclic grammars",
        ref="5/C11",
    ),
    "C12": dict(
        category="fault_enumeration",
        technique="runtime monitoring with fault injection: operation histories over a grammar directory under a create_load_table/load/save/create monitor and an open() audit hook; byte-prefix truncation and a real writer killed after k bytes; logical mtime clock; the same for the error-hint cache (.pgec): histories over a directory with error examples, SyntaxError.hint of probe parses vs a cache-free directory",
        text="Fault enumeration: histories {construct under varying options, edit root/import, touch, age the cache, force_create, truncate to k bytes, kill writer after k bytes} - after every "
        "construction the captured table and probe parses must equal a cache-free construction; round trips (serialisable, conflicts, dynamic marks, byte-identical re-save).",
        note="KF-C12-1 attributed only when the monitor saw a load of a file last written under other options whose content equals what those options produce for the current files",
        ref="5/C12",
    ),
    "C13": dict(
        technique="runtime monitoring: sugared grammar vs the documented plain-BNF expansion written by the harness, both executed by the real parser on every input up to the bound",
        text="Exploration over random rule shapes (? * + separators, groups, repeated / nested groups, nonterminal repetition, shared bases): GLR acceptance, result sets, tree counts and "
        "LR construction/results equal the expansion; greedy templates: same language and the single maximal tree.",
        note="KF-C13-1/3/4 static or result-shape classifiers; KF-C13-2 witness only",
        ref="5/C13",
    ),
    "C14": dict(
        technique="runtime monitoring: metamorphic oracle over two independently drawn layouts of the same token string; ws parameter vs ws-equivalent LAYOUT rule compared node by node",
        text="Exploration over grammars with single-character terminals x all strings up to the bound x ws / LAYOUT-rule / comment layouts, LR and GLR: acceptance, results and "
        "corresponding error positions invariant; ws vs LAYOUT rule identical incl. positions and layout_content; augmented production is the main start after building the layout sub-parser.",
        note="layout independent token boundaries by construction",
        ref="5/C14",
    ),
    "C15": dict(
        technique="runtime monitoring: operation histories over one Grammar object with fault injection (exceptions from actions, recognizers, table construction), shared-state snapshots after every operation, probes vs fresh objects and vs a fresh interpreter",
        text="Exploration over histories of parse / failing parse / recovery / raising action / raising recognizer / other parser builds (LALR, SLR, GLR, LAYOUT) / failed builds / unrelated grammars: "
        "probe outcomes equal freshly built objects; augmented production, FIRST cache, EMPTY.action unchanged.",
        note="state left by an injected fault inside table construction is judged through probes only",
        ref="5/C15",
    ),
    "C16": dict(
        technique="runtime monitoring: the same workload recorded in N interpreter processes with different PYTHONHASHSEED and checked offline for identical records; GSS monitor event 'one new link revisits several processed heads' selects grammars/inputs for the hash-seed batches",
        text="Exploration over grammars whose terminal names reorder under different hash seeds, with R/R and S/R cells and ambiguous forests: table sha256, saved bytes, conflict reports "
        "and to_str() of forest[0..n) identical across 4 (quick) / 16 (thorough) processes and across two constructions in one process.",
        note="children differ only in PYTHONHASHSEED",
        ref="5/C16",
    ),
    "C17": dict(
        technique="runtime monitoring: forests / trees of consume_input=False parsers vs the reference chart's union over sentence prefixes; GSS closure + scanner monitors for attribution",
        text="Exploration over acyclic grammars x all inputs up to the bound (sentences with continuations, layout, overlap): GLR forest == all derivations of all sentence prefixes each once, "
        "SyntaxError iff none; LR result is a derivation of a sentence prefix; lexical_disambiguation on and off.",
        note="KF-C02-1 / KF-C03-1 / KF-C17-1 attributed through the monitors only",
        ref="5/C17",
    ),
    "C18": dict(
        technique="runtime monitoring: the dynamic filter handed to the parser is the monitor; its call history is checked online against the marked-decision specification and offline against the result",
        text="Exploration over operator grammars with random dynamic marks, accept-all / reject-one-production / precedence-encoding filters, LR and GLR: single initial all-None call, only "
        "marked decisions, subresult arity, every dynamic reduction/leaf in the result has an accepted call, accept-all == no filter, reject-P == unfiltered forest minus P, precedence filter == climbing.",
        note="behaviour when a filter rejects every action is not judged",
        ref="5/C18",
    ),
    "C19": dict(
        technique="runtime monitoring: construction outcome of inline vs declared forms and parser behaviour vs a literal scanner + reference chart; scanner events vs the documented order for keyword terminals",
        text="Exploration over terminal texts with regex metacharacters, quotes, backslashes, escapes, names of other symbols (inline vs declared), and over KEYWORD regexes x word-like / non-word-like "
        "strings x ignore_case: literal matching, inline == declared, whole-word rule exactly for strings the KEYWORD regex fully matches, keywords rank as strings.",
        note="KF-C19-1..3 static predicates on the terminal texts + 'inline form raises, declared form constructs'",
        ref="5/C19",
    ),
    "C20": dict(
        technique="runtime monitoring: modular grammars written to a scratch directory and loaded by the real importer vs the flattened grammar built by the harness (reference chart + real parser on the flat text)",
        text="Exploration over chain / fan / diamond / cycle / mixed import graphs with aliases, nested qualified references, repetition on imported rules and root overrides: language, "
        "results (LR and GLR), qualified names and production counts equal the flattened grammar.",
        note="KF-C20-1 static predicate (a user of the overridden rule spells a non-canonical qualified name)",
        ref="5/C20",
    ),
})

NOT_APPLICABLE = {}


def main():
    checks = []
    for pid in sorted(CHECKS):
        c = CHECKS[pid]
        checks.append(
            {
                "property_id": pid,
                "quick_cmd": "./check %s --tier quick" % pid,
                "thorough_cmd": "./check %s --tier thorough" % pid,
                "evidence_file": "/verif/evidence/%s.json" % pid,
                "replay_cmd_template": "./check %s --replay {path}" % pid,
                "engine": "pgverif",
                "level_claimed": {"category": c.get("category", "exploration"), "text": c["text"], "design_ref": "DESIGN.md section " + c["ref"]},
                "level_note": c["note"],
                "technique": c["technique"],
            }
        )
    all_ids = ["C%02d" % i for i in range(1, 21)]
    na = []
    for pid in all_ids:
        if pid not in CHECKS:
            na.append({"property_id": pid, "reason": NOT_APPLICABLE.get(pid, "check not built yet in this round (runtime-monitoring design in DESIGN.md section 5/%s); not claimed" % pid)})
    m = {
        "version": 1,
        "setup_cmd": "/venv/bin/pip install -q --no-index --find-links /opt/veriftools/wheels --target /verif/.deps icontract deal || true",
        "hooks": {
            "guard": "PARGLARE_VERIF",
            "enable": "no source hooks are needed: every monitor is installed from the harness by wrapping attributes of the modules imported from /repo's working tree (PYTHONPATH=/repo, fresh interpreter per shard); checks export PARGLARE_VERIF=1, reserved for add-only hooks",
            "baseline_off_cmd": "cd /repo && /venv/bin/python -m pytest -ra -q -p no:cacheprovider --timeout=900 --continue-on-collection-errors",
            "source_commits": [],
            "add_only": True,
        },
        "engines": [
            {
                "name": "pgverif",
                "path": "/verif/pgverif",
                "serves_properties": sorted(CHECKS),
                "kind_free_text": "runtime monitoring harness: sharded workloads over the real parglare, monitors wrapped onto live objects, independent reference models as oracles, offline history checkers",
            }
        ],
        "checks": checks,
        "notes": "Exit codes: 0 held, 1 VIOLATION (replay file written under /verif/replay/<id>/), 2 INCONCLUSIVE (a deciding monitor was not reached / watchdog). Known findings: /verif/known_findings.json.",
        "not_applicable": na,
    }
    with open(os.path.join(ROOT, "MANIFEST.json"), "w") as f:
        json.dump(m, f, indent=1)
        f.write("\n")


if __name__ == "__main__":
    main()
