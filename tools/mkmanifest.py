#!/usr/bin/env python3
"""Writes /verif/MANIFEST.json from the table below (keeps it schema-valid)."""
import json
import os

ROOT = os.path.dirname(os.path.dirname(os.path.abspath(__file__)))

CHECKS = {
    "C01": dict(
        technique="runtime monitoring: client-boundary history of GLRParser.parse vs an independent character-level chart oracle; SPPF validity walk; GSS monitor counters + logical reduce budget",
        text="Exploration: hundreds of thousands of (grammar, table kind, input) executions per run of the real GLR parser, each judged by an independent "
        "derivation chart (sentence <=> forest, non-sentence <=> SyntaxError), every packed alternative and up to 60 trees per forest checked to be derivations "
        "whose leaves read the input. Held on what was explored, not a proof.",
        note="trusted: pgverif/cfg.py Chart as specification of the language at character level; equal priorities for overlapping vocabularies; wall clock timeouts are inconclusive, divergence decided by reduce budget",
        ref="5/C01",
    ),
    "C02": dict(
        technique="runtime monitoring: forest packed alternatives vs reference chart; GSS closure invariant evaluated at the quiescent point before every shift (monitor installed on the real driver)",
        text="Exploration over acyclic grammars weighted to nullable / hidden-recursive / right-nulled shapes x all sentences up to the bound: every packed alternative of the "
        "complete SPPF must be in the forest, tree sets compared when small. Losses are reported unless the closure monitor attributes them to the recorded mechanism KF-C02-1.",
        note="trusted: reference chart; classifier KF-C02-1 (all missing reductions on cyclic GSS paths, grammar has a nullable symbol)",
        ref="5/C02",
    ),
    "C03": dict(
        technique="runtime monitoring: forest API history (len/solutions/ambiguities/index/iteration) vs independent recounts over the live SPPF; reduce-event log for duplicate attribution",
        text="Exploration: every returned forest is recounted independently (sum/product DP by link identity, exact distinct count by enumeration up to 1500 trees, reference "
        "derivation count beyond), identical alternatives searched in every link, indices len/len+7/10**30 must raise IndexError, lazy/non-lazy/repeated/first-tree/iteration agree, "
        "LoopError only on inputs with infinitely many derivations.",
        note="trusted: canonical tree form (productions + leaf spans); classifier KF-C03-1 (duplicates mapped to repeated reduce events, one limited or epsilon)",
        ref="5/C03",
    ),
    "C05": dict(
        technique="runtime monitoring: create_table under a state-construction counter with a reference-derived budget (bounded progress); lock-step walk of the returned table against an independent canonical LR(1)/LALR(1)/SLR(1) construction",
        text="Exploration over corpus, systematic tiny grammars and random grammars x {LALR,SLR} x {main,LAYOUT} start: termination by logical budget, LR1 <= table <= LALR1/SLR1 "
        "action sandwich in every reachable state pair, gotos, conflict bookkeeping, LALR(1) grammars conflict free, augmented production restored.",
        note="trusted: pgverif/cfg.py LR1; budget 50*(N_LR1+1)*(|symbols|+1)",
        ref="5/C05",
    ),
}

NOT_APPLICABLE = {}


def main():
    checks = []
    for pid in sorted(CHECKS):
        c = CHECKS[pid]
        checks.append(
            {
                "property_id": pid,
                "quick_cmd": "./check %s --tier quick" % pid,
                "thorough_cmd": "./check %s --tier thorough" % pid,
                "evidence_file": "/verif/evidence/%s.json" % pid,
                "replay_cmd_template": "./check %s --replay {path}" % pid,
                "engine": "pgverif",
                "level_claimed": {"category": c.get("category", "exploration"), "text": c["text"], "design_ref": "DESIGN.md section " + c["ref"]},
                "level_note": c["note"],
                "technique": c["technique"],
            }
        )
    all_ids = ["C%02d" % i for i in range(1, 21)]
    na = []
    for pid in all_ids:
        if pid not in CHECKS:
            na.append({"property_id": pid, "reason": NOT_APPLICABLE.get(pid, "check not built yet in this round (runtime-monitoring design in DESIGN.md section 5/%s); not claimed" % pid)})
    m = {
        "version": 1,
        "setup_cmd": "/venv/bin/pip install -q --no-index --find-links /opt/veriftools/wheels --target /verif/.deps icontract deal || true",
        "hooks": {
            "guard": "PARGLARE_VERIF",
            "enable": "no source hooks are needed: every monitor is installed from the harness by wrapping attributes of the modules imported from /repo's working tree (PYTHONPATH=/repo, fresh interpreter per shard); checks export PARGLARE_VERIF=1, reserved for add-only hooks",
            "baseline_off_cmd": "cd /repo && /venv/bin/python -m pytest -ra -q -p no:cacheprovider --timeout=900 --continue-on-collection-errors",
            "source_commits": [],
            "add_only": True,
        },
        "engines": [
            {
                "name": "pgverif",
                "path": "/verif/pgverif",
                "serves_properties": sorted(CHECKS),
                "kind_free_text": "runtime monitoring harness: sharded workloads over the real parglare, monitors wrapped onto live objects, independent reference models as oracles, offline history checkers",
            }
        ],
        "checks": checks,
        "notes": "Exit codes: 0 held, 1 VIOLATION (replay file written under /verif/replay/<id>/), 2 INCONCLUSIVE (a deciding monitor was not reached / watchdog). Known findings: /verif/known_findings.json.",
        "not_applicable": na,
    }
    with open(os.path.join(ROOT, "MANIFEST.json"), "w") as f:
        json.dump(m, f, indent=1)
        f.write("\n")


if __name__ == "__main__":
    main()
