#!/bin/bash
# tools/trymut.sh <worktree-with-change> <check ids...>  - runs checks against a scratch tree; never touches /repo or evidence
cd "$(dirname "$0")/.."
wt=$1; shift
out=/tmp/mut/ev/$(basename $wt); mkdir -p $out
for id in "$@"; do
  o=$(PGV_REPO=$wt PGV_OUT_DIR=$out ./check $id --tier ${TIER:-quick} 2>&1); rc=$?
  echo "$id rc=$rc $(echo "$o" | grep -E "tier=" | cut -c1-100)"
  echo "$o" | grep -E "violation \[|INCONCLUSIVE" | cut -c1-300 | head -4
done
